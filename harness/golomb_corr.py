"""
Correspondence of the Golomb model's own consistency algorithm (nucs/examples/golomb/golomb_problem.py:
golomb_consistency_algorithm) with its Lean model `golombPrune` (lean/NucsModel/Engine/GolombCons.lean).

The real function is called in interpreted mode on generated search states of GolombProblem(n, sb) with the final call of
bound_consistency_algorithm replaced by a marker (module attribute of the example module, in this process only): what is compared
is the pruning part — status, every domain, the queue of woken constraints.  Independently of the model, the pruning is checked
against the definition: every Golomb ruler inside the state's box (enumerated by brute force over the marks for small n) must still
be inside the box afterwards, and a failure may only be reported when the box holds no ruler (soundness, the property D15/D17 broke).
"""
import itertools

import numpy as np

import nv


OFF_ARRAY = set()   # ids of the constructed unreachable states (an IndexError there is in the model too, and no violation)


def gen_state(rng, n, gp, nvars, index):
    """a search state: some first marks instantiated, inner distances propagated or not, other domains narrowed at random"""
    doms = [[int(d[0]), int(d[1])] for d in gp.shr_domains_lst]
    if n >= 6 and rng.random() < 0.08:
        # an UNREACHABLE state (not a partial ruler): every scanned distance instantiated to a distinct small value, so that the
        # `used_distance` scan runs off its array (IndexError in interpreted mode, `.error .oob` in the model): the error branch
        # of the correspondence; staying inside the array is a fact about reachable states, not a counting fact (DESIGN 12.3, C20)
        ni = n - 2
        size = (n - 2) * (n - 1) // 2 + 1
        vals = list(range(1, size))
        rng.shuffle(vals)
        for v in range(index(n, ni - 2, ni - 1) + 1):
            if ni <= v <= n - 2 or not vals:
                continue
            doms[v] = [vals.pop()] * 2
        OFF_ARRAY.add(id(doms))
        return doms
    k = rng.randint(0, n - 2)
    marks = [0]
    for _ in range(k):
        marks.append(marks[-1] + rng.randint(1, 6))
    for j in range(1, len(marks)):
        doms[index(n, 0, j)] = [marks[j], marks[j]]
    for i in range(1, len(marks)):
        for j in range(i + 1, len(marks)):
            if rng.random() < 0.6:
                doms[index(n, i, j)] = [marks[j] - marks[i]] * 2
    for v in range(nvars):
        lo, hi = doms[v]
        if lo < hi and rng.random() < 0.5:
            a = rng.randint(lo, min(hi, lo + 6))
            b = rng.randint(a, min(hi, a + rng.choice([0, 1, 3, 10, 40])))
            doms[v] = [a, b]
    return doms


def rulers_in(n, doms, index, cap=20000):
    """the distance tables of the Golomb rulers inside the box (None when the enumeration would be too large)"""
    rng_marks = [doms[index(n, 0, j)] for j in range(1, n)]
    size = 1
    for lo, hi in rng_marks:
        size *= (hi - lo + 1)
        if size > cap:
            return None
    out = []
    for ms in itertools.product(*[range(lo, hi + 1) for lo, hi in rng_marks]):
        m = (0,) + ms
        if any(m[i] >= m[i + 1] for i in range(n - 1)):
            continue
        vec = [m[j] - m[i] for i in range(n - 1) for j in range(i + 1, n)]
        if len(set(vec)) != len(vec):
            continue
        if all(doms[v][0] <= vec[v] <= doms[v][1] for v in range(len(vec))):
            out.append(vec)
    return out


def run(report, rng, n_cases):
    """-> (correspondence differences, violations)"""
    import nucs.examples.golomb.golomb_problem as G
    import walk
    from props.C13 import from_problem

    corr, viol, reqs = [], [], []
    saved = G.bound_consistency_algorithm
    G.bound_consistency_algorithm = lambda *a: 99
    try:
        for _ in range(n_cases):
            n = rng.choice([4, 5, 5, 6, 6, 7])
            sb = rng.random() < 0.5
            gp = G.GolombProblem(n, sb)
            prob = from_problem(gp)
            nvars = len(prob.shr)
            eng = walk.RealEngine(prob)
            doms = gen_state(rng, n, gp, nvars, G.index)
            s, p = eng.s, eng.problem
            s.shr_domains_stack[0] = np.array(doms, dtype=np.int32)
            s.stacks_top[0] = 0
            trig = [rng.random() < 0.3 for _ in range(p.propagator_nb)]
            s.triggered_propagators[:] = np.array(trig, dtype=bool)
            ne = [True] * p.propagator_nb
            s.not_entailed_propagators_stack[0] = True
            dec = [int(x) for x in s.decision_domains]
            before = [tuple(d) for d in doms]
            try:
                with nv.guard(20):
                    st = int(G.golomb_consistency_algorithm(
                        s.statistics, p.algorithms, p.var_bounds, p.param_bounds, p.dom_indices_arr, p.dom_offsets_arr,
                        p.props_dom_indices, p.props_dom_offsets, p.props_parameters, p.triggers, s.shr_domains_stack,
                        s.not_entailed_propagators_stack, s.dom_update_stack, s.stacks_top, s.triggered_propagators,
                        eng.addrs, s.decision_domains))
                after = eng.doms(0)
                impl = f"{1 if st == 99 else 0} {nv.enc_box(after)} {nv.enc_bools(eng.trig())}"
            except IndexError:
                st, after, impl = None, None, "err oob"
            except nv.Hang:
                st, after, impl = None, None, "hang"
            req = f"golombprune {prob.enc()} {nv.enc_box(before)} {nv.enc_bools(ne)} {nv.enc_bools(trig)} {nv.enc_ints(dec)}"
            replay = {"op": "golombprune", "marks": n, "symmetry_breaking": sb, "doms": before, "triggered": trig}
            reqs.append((req, impl, replay))
            report.cov["evaluations"] += 1
            report.count("golomb_prune", ("error (constructed unreachable state)" if id(doms) in OFF_ARRAY else "error") if st is None else ("pruned" if st == 99 and [tuple(d) for d in after] != before else
                                                                    ("unchanged" if st == 99 else "inconsistent")))
            if st is None and id(doms) in OFF_ARRAY:
                continue   # compared with the model below; the state is not reachable by any search
            if st is None:
                viol.append(dict(replay, kind="example", model="golomb", detail=f"golomb_consistency_algorithm on a search state: {impl}"))
                continue
            if st == 99 and [tuple(d) for d in after] != before:
                report.nontrivial(("golombprune", n, str(before)))
            # direct evaluation: shrinking and soundness
            if st == 99 and any(a[0] < b[0] or a[1] != b[1] or a[0] > a[1] for a, b in zip(after, before)):
                viol.append(dict(replay, kind="example", model="golomb", detail=f"the pruning part does more than raise lower bounds inside the domains: {after}"))
            rs = rulers_in(n, before, G.index)
            if rs is not None:
                if st != 99 and rs:
                    viol.append(dict(replay, kind="example", model="golomb", detail=f"inconsistency reported although the ruler {rs[0]} lies inside the box"))
                elif st == 99:
                    lost = [r for r in rs if any(not (after[v][0] <= r[v] <= after[v][1]) for v in range(nvars))]
                    if lost:
                        viol.append(dict(replay, kind="example", model="golomb", detail=f"the ruler {lost[0]} inside the box is pruned: {after}"))
    finally:
        G.bound_consistency_algorithm = saved
    answers = nv.Model().ask([q for q, _, _ in reqs])
    for (q, impl, replay), ans in zip(reqs, answers):
        if impl != ans:
            corr.append(dict(replay, implementation=impl[:400], model=ans[:400]))
    return corr, viol
