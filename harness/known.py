"""re-execution of the stored witnesses of known findings (called in a watchdog subprocess)"""
import nv


def witness_fails(w):
    t = w.get("type", "prop")
    if t == "prop":
        import props_sweep

        box = [tuple(d) for d in w["box"]]
        st, out = nv.impl_prop(w["alg"], w["params"], box)
        return bool(props_sweep.check_case(w["alg"], w["params"], box, st, out, set(w["kinds"])))
    if t == "pass_refail":
        import walk

        prob = nv.Prob.from_json(w["problem"])
        e = walk.RealEngine(prob)
        st = e.bc()
        if st == 0:
            return False
        bad = walk.check_pass(prob, e.sorted_props(), prob.shr, e.doms(), [True] * len(prob.props), e.ne(), e.trig())
        return any(k == "K3" for k, _ in bad)
    raise KeyError(t)
