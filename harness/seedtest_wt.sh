#!/bin/bash
# usage: seedtest_wt.sh <worktree with the change applied> <prop> [<prop> ...]
# runs the quick checks against a scratch worktree of /repo (NUCS_REPO) with evidence/replays redirected (VERIF_OUT),
# so that several seeded changes can be tested at once and /repo stays untouched
set -u
wt="$1"; shift
out=/tmp/out_$(basename $wt); mkdir -p $out
cd /verif
for p in "$@"; do
  o=$(NUCS_REPO=$wt VERIF_OUT=$out ./check "$p" --tier ${TIER:-quick} 2>&1)
  rc=$?
  echo "== $p rc=$rc :: $(echo "$o" | grep -E 'VIOLATION|KNOWN' | head -3 | cut -c1-220) :: $(echo "$o" | tail -1 | cut -c1-160)"
done
