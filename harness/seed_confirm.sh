#!/bin/bash
# usage: seed_confirm.sh <id> <seed worktree dir>  — independent confirmation of a seeded change in a fresh scratch worktree:
# the patch applies, the existing suite passes with it, the demo fails with it and passes without it.
set -u
id="$1"; src="$2"
wt=/tmp/confirm_$id
rm -rf $wt; git -C /repo worktree prune; git -C /repo worktree add -q --detach $wt HEAD || exit 2
cp "$src/patch.diff" "$src/demo.py" $wt/ 2>/dev/null
cd $wt
git apply patch.diff || { echo "PATCH DOES NOT APPLY"; exit 2; }
export NUMBA_CACHE_DIR=$wt/.nbcache
rm -rf $NUMBA_CACHE_DIR
tests=$(/venv/bin/python -m pytest -q -p no:cacheprovider --timeout=900 2>&1 | tail -1)
echo "tests with change: $tests"
rm -rf $NUMBA_CACHE_DIR
timeout 900 /venv/bin/python demo.py > demo_with.log 2>&1; rc_with=$?
git apply -R patch.diff
rm -rf $NUMBA_CACHE_DIR
timeout 900 /venv/bin/python demo.py > demo_without.log 2>&1; rc_without=$?
echo "demo exit with change: $rc_with ; without: $rc_without"
tail -3 demo_with.log | cut -c1-300
cd /; git -C /repo worktree remove --force $wt
