#!/bin/bash
# usage: seedtest.sh <patch.diff> <prop> [<prop> ...]   — apply a seeded change to /repo, run the quick checks, restore /repo
set -u
patch="$1"; shift
cd /repo || exit 2
if ! git diff --quiet; then echo "/repo has uncommitted changes"; exit 2; fi
git apply "$patch" || { echo "patch does not apply"; exit 2; }
cd /verif
for p in "$@"; do
  out=$(./check "$p" --tier quick 2>&1)
  rc=$?
  echo "== $p rc=$rc :: $(echo "$out" | grep -E 'VIOLATION|KNOWN' | head -3 | cut -c1-200) :: $(echo "$out" | tail -1 | cut -c1-160)"
done
git -C /repo checkout -- .
git -C /repo status --short | head -3
