"""
Correspondence sweep for single filtering calls: the real `compute_domains_*` against the Lean
model on the same (parameters, box), plus — independently of the model — direct evaluation of the
local properties (C05 sound, C06 ground, C07 entail, C14 exact, C16 in-bounds) on the real code
against the brute-force oracle.  The oracle part is the failing-input search; it never stands in
for a theorem.
"""
import math
import random

import gen
import nv
import oracle

ORACLE_BOX_LIMIT = 4000


def one_round_affine_eq(ps, box):
    """the declarative one-round interval rule (property C14) computed from the INPUT bounds"""
    cs, a = ps[:-1], ps[-1]
    lo_terms = [min(c * d[0], c * d[1]) for c, d in zip(cs, box)]
    hi_terms = [max(c * d[0], c * d[1]) for c, d in zip(cs, box)]
    if not (sum(lo_terms) <= a <= sum(hi_terms)):
        return None
    out = []
    for i, (c, d) in enumerate(zip(cs, box)):
        if c == 0:
            out.append(tuple(d))
            continue
        rest_lo = sum(lo_terms) - lo_terms[i]
        rest_hi = sum(hi_terms) - hi_terms[i]
        # c*x in [a - rest_hi, a - rest_lo]
        lo_v, hi_v = a - rest_hi, a - rest_lo
        if c > 0:
            new = (max(d[0], -((-lo_v) // c)), min(d[1], hi_v // c))
        else:
            new = (max(d[0], -((-hi_v) // c)), min(d[1], lo_v // c))
        if new[0] > new[1]:
            return None
        out.append(new)
    out = out + [tuple(d) for d in box[len(cs):]]
    if all(d[0] == d[1] for d in out[: len(cs)]) and sum(c * d[0] for c, d in zip(cs, out)) != a:
        return None
    return out


def check_case(alg, ps, box, st, out, kinds):
    """evaluate the local properties on one result of the REAL code; returns list of (kind, detail)"""
    bad = []
    if st == "oob":
        if "oob" in kinds:
            bad.append(("oob", "IndexError / out-of-bounds access"))
        return bad
    if st == "hang":
        if "term" in kinds:
            bad.append(("term", "the filtering call did not return within the watchdog"))
        return bad
    small = oracle.box_size(box) <= ORACLE_BOX_LIMIT
    if st != 0:
        if any(o[0] > o[1] for o in out):
            bad.append(("sound", f"empty domain in non-failing output {out}"))
        if any(o[0] < b[0] or o[1] > b[1] for o, b in zip(out, box)):
            bad.append(("sound", f"output {out} not contained in input"))
    if not small:
        return bad
    sols = [t for t in oracle.tuples(box) if oracle.rel(alg, ps, t)]
    if "sound" in kinds:
        if st == 0 and sols:
            bad.append(("sound", f"inconsistency reported although {sols[0]} satisfies the constraint"))
        if st != 0:
            lost = [t for t in sols if any(x < o[0] or x > o[1] for x, o in zip(t, out))]
            if lost:
                bad.append(("sound", f"solution {lost[0]} removed: output {out}"))
    if "ground" in kinds and st != 0 and all(o[0] == o[1] for o in out):
        t = [o[0] for o in out]
        if not oracle.rel_weak(alg, ps, t):
            bad.append(("ground", f"instantiated tuple {t} accepted although it violates the relation"))
    if "ground" in kinds and st == 0 and all(b[0] == b[1] for b in box):
        t = [b[0] for b in box]
        if oracle.rel(alg, ps, t):
            bad.append(("ground", f"instantiated tuple {t} rejected although it satisfies the relation"))
    if "entail" in kinds and st == 2:
        viol = [t for t in oracle.tuples(out) if not oracle.rel(alg, ps, t)]
        if viol:
            bad.append(("entail", f"entailed answered but {viol[0]} in the output box violates the constraint"))
    if "exact" in kinds and alg in gen.BC_ALGS:
        h = None
        if sols:
            h = [(min(t[k] for t in sols), max(t[k] for t in sols)) for k in range(len(box))]
        if h is None and st != 0:
            bad.append(("exact", f"no solution in the box but status {st}"))
        if h is not None and st != 0 and [tuple(o) for o in out] != h:
            bad.append(("exact", f"output {out} is not the bounds hull {h}"))
        if st != 0 and not bad:
            st2, out2 = nv.impl_prop(alg, ps, out)
            if out2 is None:
                bad.append(("exact", f"second call on the result {out} does not return a box: {st2} (index error / no return)"))
            elif st2 == 0 or [tuple(o) for o in out2] != [tuple(o) for o in out]:
                bad.append(("exact", f"second call changes the result: {st2} {out2}"))
    if "exact" in kinds and alg == "affine_eq":
        exp = one_round_affine_eq(ps, box)
        if (exp is None) != (st == 0) or (exp is not None and [tuple(o) for o in out] != exp):
            bad.append(("exact", f"affine_eq result {st} {out} differs from one round of interval reasoning {exp}"))
    return bad


def known_finding(alg, ps, box):
    """predicates of the recorded known findings (known_findings.json): inputs excluded from claims"""
    if alg == "gcc":
        m = (len(ps) - 1) // 2
        if any(u == 0 for u in ps[1 + m : 1 + 2 * m]):
            return "K1-gcc-zero-capacity"
    return None


def sweep(algs, tier, seed, report, kinds, budget=None):
    """returns (corr_diffs, violations); both lists of replay dicts"""
    rng = random.Random(seed)
    model = nv.Model()
    corr_diffs, violations = [], []
    sampled = set()
    per_alg = budget or (2500 if tier == "quick" else None)
    n_random = 600 if tier == "quick" else 20000
    for alg in algs:
        cases = []
        scope = gen.prop_scope(alg)
        bst = nv.boost("alg:" + alg) if tier == "quick" else 1
        report.count("boost", alg, bst)
        if per_alg is None or (bst > 1 and budget is None):
            cases = list(scope)
            exhaustive = True
        else:
            allc = list(scope)
            exhaustive = len(allc) <= per_alg
            cases = allc if exhaustive else rng.sample(allc, per_alg)
        n_scope = len(cases)
        for _ in range(n_random * bst):
            cases.append(gen.prop_random(alg, rng))
        n_wide = 0
        for _ in range((n_random // 3) * bst):
            w = gen.prop_wide(alg, rng)
            if w is not None:
                cases.append(w)
                n_wide += 1
        report.count("wide_cases", alg, n_wide)
        cases = [(ps, b) for ps, b in cases if known_finding(alg, ps, b) is None]
        reqs = [f"prop {alg} {nv.enc_ints(ps)} {nv.enc_box(b)}" for ps, b in cases]
        answers = model.ask(reqs)
        report.count("scope_cases", alg, n_scope)
        report.count("scope_exhaustive", alg, 1 if exhaustive else 0)
        for (ps, b), ans in zip(cases, answers):
            st, out = nv.impl_prop(alg, ps, b)
            report.cov["evaluations"] += 1
            report.count("status", f"{alg}:{st}")
            if st == "oob":
                impl_line = "err oob"
            elif st == "hang":
                impl_line = "hang"
            elif st == 0:
                impl_line = "0"
            else:
                impl_line = f"{st} {nv.enc_box(out)}"
            if st not in (0, "oob", "hang") and (st == 2 or [tuple(o) for o in out] != [tuple(x) for x in b]):
                report.nontrivial((alg, tuple(ps), tuple(map(tuple, b))))
            elif st == 0:
                report.nontrivial((alg, tuple(ps), tuple(map(tuple, b))))
            case = {"alg": alg, "params": list(ps), "box": [list(d) for d in b]}
            if impl_line != ans:
                corr_diffs.append(dict(case, implementation=impl_line, model=ans))
            for kind, detail in check_case(alg, ps, b, st, out, kinds):
                violations.append(dict(case, kind=kind, detail=detail, implementation=impl_line))
            if alg not in sampled and (st == 0 or st == 2 or (st == 1 and [tuple(o) for o in out] != [tuple(x) for x in b])):
                sampled.add(alg)
                report.sample(dict(case, implementation=impl_line, model=ans), cap=30)
        report.cov["traces_validated_against_impl"] += len(cases)
    return corr_diffs, violations
