"""
Event observer for property C17 ("statistics equal what actually happened"), interpreted mode only.

The statistics array is written by the engine; this module counts the EVENTS independently, by interposition on
the functions the interpreted engine calls through module attributes / registry lists (no change to /repo):

  passes        calls of bound_consistency_algorithm (from solve_one through the registry, from shaving through its global)
  inc_passes    … that returned PROBLEM_INCONSISTENT
  shaving       calls of shaving_consistency_algorithm
  probes        calls of shave_bound, split by their answer (changed / not changed)
  execs         calls of any compute_domains_* function, with the status each returned
  nochange      executions followed by no add_propagators call of the propagation loop (and not the last, failing one)
  choices       calls of a value heuristic from solve_one (through the registry list)
  depth         the largest stacks_top[0] seen right after such a call
  backtracks    calls of backtrack() that returned True (solver and shaving)

`install()` wraps once per process; `reset()`/`snapshot()` bracket one run.
"""
import functools

EV = {}
UNAVAILABLE = set()   # observation points the current source does not offer (a harmless refactoring may remove one): never an alarm
_installed = [False]
_state = {"in_pass": 0, "last_exec_open": False}


def reset():
    EV.clear()
    EV.update(passes=0, inc_passes=0, shaving=0, probes=0, probes_changed=0, probes_unchanged=0, execs=0, ent=0, inc_execs=0,
              nochange=0, choices=0, depth=0, backtracks=0)
    _state["in_pass"] = 0
    _state["last_exec_open"] = False


def snapshot():
    return dict({k: v for k, v in EV.items() if k not in UNAVAILABLE}, unavailable=sorted(UNAVAILABLE))


def install():
    if _installed[0]:
        return
    _installed[0] = True
    import nucs.heuristics.heuristics as H
    import nucs.propagators.propagators as PR
    import nucs.solvers.backtrack_solver as BS
    import nucs.solvers.bound_consistency_algorithm as BC
    import nucs.solvers.consistency_algorithms as C
    import nucs.solvers.shaving_consistency_algorithm as SH
    from nucs.constants import PROBLEM_INCONSISTENT, PROP_ENTAILMENT, PROP_INCONSISTENCY

    reset()

    def close_exec(failed_pass):
        # the previous execution ends here: it changed nothing iff no add_propagators call followed it
        if _state["last_exec_open"]:
            if not failed_pass:
                EV["nochange"] += 1
            _state["last_exec_open"] = False

    def wrap_compute(f):
        @functools.wraps(f)
        def g(*a, **k):
            close_exec(False)
            st = f(*a, **k)
            EV["execs"] += 1
            if st == PROP_ENTAILMENT:
                EV["ent"] += 1
            if st == PROP_INCONSISTENCY:
                EV["inc_execs"] += 1
                _state["last_exec_open"] = False
            else:
                _state["last_exec_open"] = True
            return st
        return g

    for i, f in enumerate(list(PR.COMPUTE_DOMAINS_FCTS)):
        PR.COMPUTE_DOMAINS_FCTS[i] = wrap_compute(f)
    if getattr(BC, "COMPUTE_DOMAINS_FCTS", None) is not PR.COMPUTE_DOMAINS_FCTS:
        UNAVAILABLE.update({"execs", "ent", "inc_execs", "nochange"})

    real_add = getattr(BC, "add_propagators", None)
    if real_add is None:
        UNAVAILABLE.add("nochange")

    def add_in_pass(*a, **k):
        if _state["in_pass"]:
            _state["last_exec_open"] = False  # the execution changed a domain
        return real_add(*a, **k)

    if real_add is not None:
        BC.add_propagators = add_in_pass

    real_bc = BC.bound_consistency_algorithm

    @functools.wraps(real_bc)
    def bc(*a, **k):
        EV["passes"] += 1
        _state["in_pass"] += 1
        _state["last_exec_open"] = False
        try:
            st = real_bc(*a, **k)
        finally:
            _state["in_pass"] -= 1
        if st == PROBLEM_INCONSISTENT:
            EV["inc_passes"] += 1
        close_exec(st == PROBLEM_INCONSISTENT)
        return st

    real_sh = SH.shaving_consistency_algorithm

    @functools.wraps(real_sh)
    def sh(*a, **k):
        EV["shaving"] += 1
        return real_sh(*a, **k)

    for i, f in enumerate(list(C.CONSISTENCY_ALG_FCTS)):
        if f is real_bc:
            C.CONSISTENCY_ALG_FCTS[i] = bc
        elif f is real_sh:
            C.CONSISTENCY_ALG_FCTS[i] = sh
    if not any(f is bc for f in C.CONSISTENCY_ALG_FCTS) or getattr(SH, "bound_consistency_algorithm", None) is not real_bc:
        UNAVAILABLE.update({"passes", "inc_passes", "nochange"})
    else:
        SH.bound_consistency_algorithm = bc
    if not any(f is sh for f in C.CONSISTENCY_ALG_FCTS):
        UNAVAILABLE.add("shaving")

    real_probe = getattr(SH, "shave_bound", None)

    def probe(*a, **k):
        r = real_probe(*a, **k)
        EV["probes"] += 1
        EV["probes_changed" if r else "probes_unchanged"] += 1
        return r

    if real_probe is None:
        UNAVAILABLE.update({"probes", "probes_changed", "probes_unchanged"})
    else:
        SH.shave_bound = probe

    def wrap_dom(f):
        @functools.wraps(f)
        def g(params, shr_domains_stack, not_entailed, dom_update_stack, stacks_top, dom_idx):
            r = f(params, shr_domains_stack, not_entailed, dom_update_stack, stacks_top, dom_idx)
            EV["choices"] += 1
            EV["depth"] = max(EV["depth"], int(stacks_top[0]))
            return r
        return g

    for i, f in enumerate(list(H.DOM_HEURISTIC_FCTS)):
        H.DOM_HEURISTIC_FCTS[i] = wrap_dom(f)

    def wrap_bt(f):
        @functools.wraps(f)
        def g(*a, **k):
            r = f(*a, **k)
            if r:
                EV["backtracks"] += 1
            return r
        return g

    if hasattr(BS, "backtrack") and hasattr(SH, "backtrack"):
        BS.backtrack = wrap_bt(BS.backtrack)
        SH.backtrack = wrap_bt(SH.backtrack)
    else:
        UNAVAILABLE.add("backtracks")


def compare(stats, ev):
    """differences between the statistics the solver reports (dict by label) and the observed events"""
    pairs = [
        ("ALG_BC_NB", "passes"), ("ALG_BC_WITH_SHAVING_NB", "shaving"), ("ALG_SHAVING_NB", "probes"),
        ("ALG_SHAVING_CHANGE_NB", "probes_changed"), ("ALG_SHAVING_NO_CHANGE_NB", "probes_unchanged"),
        ("PROPAGATOR_ENTAILMENT_NB", "ent"), ("PROPAGATOR_FILTER_NB", "execs"), ("PROPAGATOR_FILTER_NO_CHANGE_NB", "nochange"),
        ("PROPAGATOR_INCONSISTENCY_NB", "inc_passes"), ("SOLVER_BACKTRACK_NB", "backtracks"), ("SOLVER_CHOICE_NB", "choices"),
        ("SOLVER_CHOICE_DEPTH", "depth"),
    ]
    return [f"{lab} reported {stats[lab]}, observed {ev[key]} ({key})" for lab, key in pairs if key in ev and stats[lab] != ev[key]]
