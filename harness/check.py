"""
./check <property> [--tier quick|thorough] [--replay file]

Protocol (DESIGN.md §3.1):
  A  tie to source     tree hash of /repo/nucs -> Numba cache directory
  B  proof             lake build; forbidden-token grep; `#print axioms` of every theorem of the
                       property's Properties file must be ⊆ {propext, Classical.choice, Quot.sound}
  C  correspondence    model components the theorems talk about vs. the implementation
  D  direct evaluation of the property on the implementation (corpus first)
  E  verdict           exit 0 / VIOLATION line + exit 1 / exit 2 on infrastructure failure
"""
import argparse
import fcntl
import hashlib
import importlib
import json
import os
import re
import subprocess
import sys
import time

HERE = os.path.dirname(os.path.abspath(__file__))
sys.path.insert(0, HERE)
import nv  # noqa: E402

VERIF = nv.VERIF
LEAN = nv.LEAN_DIR
CACHE = os.path.join(VERIF, ".cache")
ALLOWED_AXIOMS = {"propext", "Classical.choice", "Quot.sound"}
FORBIDDEN = re.compile(r"\b(sorry|admit|native_decide|bv_decide|implemented_by|unsafe)\b|^\s*axiom\s|maxHeartbeats\s+0")


class Infra(Exception):
    pass


def sh(cmd, cwd=None, timeout=3600, env=None):
    r = subprocess.run(cmd, cwd=cwd, capture_output=True, text=True, timeout=timeout, env=env)
    return r.returncode, r.stdout, r.stderr


def lean_sources_hash():
    h = hashlib.sha256()
    for dp, dn, fn in sorted(os.walk(LEAN)):
        dn[:] = sorted(d for d in dn if d != ".lake")
        for f in sorted(fn):
            if f.endswith(".lean") or f == "lakefile.toml":
                p = os.path.join(dp, f)
                h.update(os.path.relpath(p, LEAN).encode())
                with open(p, "rb") as fh:
                    h.update(fh.read())
    return h.hexdigest()[:16]


def strip_comments(text):
    text = re.sub(r"/-.*?-/", "", text, flags=re.S)
    return re.sub(r"--.*", "", text)


def lake_build():
    """build model, proofs and driver under a file lock; returns (ok, log)"""
    os.makedirs(CACHE, exist_ok=True)
    with open(os.path.join(CACHE, "build.lock"), "w") as lock:
        fcntl.flock(lock, fcntl.LOCK_EX)
        stamp = os.path.join(CACHE, "build.stamp")
        hsh = lean_sources_hash()
        if os.path.exists(stamp) and os.path.exists(nv.DRIVER):
            with open(stamp) as f:
                st = json.load(f)
            if st.get("hash") == hsh:
                return st["ok"], st.get("log", "")
        rc, out, err = sh(["lake", "build"], cwd=LEAN, timeout=7200)
        ok = rc == 0
        log = (out + err)[-4000:]
        with open(stamp, "w") as f:
            json.dump({"hash": hsh, "ok": ok, "log": log if not ok else ""}, f)
        return ok, log


def proof_status(prop_id):
    """B: returns dict(ok, theorems, axioms, problems)"""
    res = {"ok": False, "theorems": [], "axioms": {}, "problems": [], "helper_theorems": 0}
    ok, log = lake_build()
    if not os.path.exists(nv.DRIVER):
        raise Infra("lake build did not produce the model driver:\n" + log)
    if not ok:
        res["problems"].append("lake build failed: " + log[-1500:])
        return res
    pfile = os.path.join(LEAN, "NucsProofs", "Properties", prop_id + ".lean")
    if not os.path.exists(pfile):
        res["problems"].append("no Properties file for " + prop_id)
        return res
    # the import closure of the property's file (project modules only)
    closure, todo = {}, [f"NucsProofs.Properties.{prop_id}"]
    while todo:
        m = todo.pop()
        if m in closure:
            continue
        path = os.path.join(LEAN, *m.split(".")) + ".lean"
        if not os.path.exists(path):
            continue
        with open(path) as fh:
            raw = fh.read()
        closure[m] = strip_comments(raw)
        for imp in re.findall(r"^import\s+((?:NucsModel|NucsProofs)[A-Za-z0-9_.]*)", raw, flags=re.M):
            todo.append(imp)
    names, n_helpers = [], 0
    for m, txt in sorted(closure.items()):
        for ln in txt.splitlines():
            if FORBIDDEN.search(ln):
                res["problems"].append(f"forbidden token in {m}: {ln.strip()[:120]}")
        decls = re.findall(r"^\s*(?:private\s+)?(?:theorem|lemma)\s+([A-Za-z0-9_.']+)", txt, flags=re.M)
        n_helpers += len(decls)
        if m.startswith("NucsProofs"):
            names += [d for d in decls if d.split(".")[-1].startswith(prop_id + "_")]
    res["helper_theorems"] = n_helpers
    res["modules"] = sorted(closure)
    names = sorted(set(names))
    res["theorems"] = names
    if not names:
        res["problems"].append(f"no theorem named {prop_id}_* in the import closure of Properties/{prop_id}.lean")
        return res
    # axiom audit (cached per source hash)
    os.makedirs(os.path.join(CACHE, "audit"), exist_ok=True)
    cache_f = os.path.join(CACHE, "audit", f"{prop_id}-{lean_sources_hash()}.json")
    if os.path.exists(cache_f):
        with open(cache_f) as f:
            axioms = json.load(f)
    else:
        audit = os.path.join(CACHE, "audit", f"Audit{prop_id}.lean")
        with open(audit, "w") as f:
            f.write(f"import NucsProofs.Properties.{prop_id}\nopen Nucs\n")
            for n in names:
                f.write(f"#print axioms {n}\n")
        rc, out, err = sh(["lake", "env", "lean", audit], cwd=LEAN, timeout=1800)
        out = out + err
        if rc != 0:
            res["problems"].append("axiom audit failed: " + (out + err)[-800:])
            return res
        axioms = {}
        for m in re.finditer(r"'(\S+)' (does not depend on any axioms|depends on axioms: \[([^\]]*)\])", out.replace("\n", " ")):
            axioms[m.group(1).split(".")[-1]] = [] if m.group(3) is None else [a.strip() for a in m.group(3).split(",")]
        with open(cache_f, "w") as f:
            json.dump(axioms, f)
    res["axioms"] = axioms
    for n in names:
        short = n.split(".")[-1]
        if short not in axioms:
            res["problems"].append(f"theorem {n}: no axiom report")
        elif not set(axioms[short]) <= ALLOWED_AXIOMS:
            res["problems"].append(f"theorem {n} depends on {axioms[short]}")
    res["ok"] = not res["problems"]
    return res


def leanchecker(prop_id):
    rc, out, err = sh(["lake", "env", "leanchecker", f"NucsProofs.Properties.{prop_id}"], cwd=LEAN, timeout=3600)
    return rc == 0, (out + err)[-500:]


TRUSTED_BASE = [
    "Lean 4.33.0 kernel (leanchecker re-check in the thorough tier); axioms of every property theorem ⊆ {propext, Classical.choice, Quot.sound}",
    "Lean compiler/runtime executing the model driver (correspondence only)",
    "the correspondence harness (generators, adapters, diff) and the reading of the documentation in NucsProofs/Spec.lean",
    "modelled, not verified: Numba code generation and integer widths, NumPy semantics, dispatch through function addresses, multiprocessing queues/processes, float complexity keys",
]


def load_known():
    p = os.path.join(VERIF, "known_findings.json")
    if not os.path.exists(p):
        return {"known": [], "fixed": []}
    with open(p) as f:
        return json.load(f)


def replay(prop, path):
    """re-evaluate the concrete inputs stored in a replay file on the CURRENT tree; exit 1 if any still fails"""
    nv.setup_env(jit=False)
    with open(path) as f:
        rep = json.load(f)
    if rep.get("kind") == "no-failing-input-found":
        print("this replay names the theorem / correspondence component that no longer checks:")
        print(json.dumps(rep.get("no_longer_checks"), indent=1)[:3000])
        return 1
    import props_sweep
    from props import _solver
    still = 0
    for v in rep.get("violations", []):
        try:
            if v.get("kind") == "trigger":
                import trig_sweep

                bad = trig_sweep.check_one(v["alg"], v["params"], v["box"])
                print(("STILL FAILS " if bad else "passes now  ") + json.dumps({k: v[k] for k in ("alg", "params", "box")}) + (" :: " + bad if bad else ""))
                still += 1 if bad else 0
            elif v.get("op") == "split_solve":
                import corr_engine as ce

                a_ = ce._exec_case(dict(v, prior=False))
                b_ = ce._exec_case(dict(v, prior=True))
                bad = list(a_[1:]) != list(b_[1:])
                print(("STILL FAILS " if bad else "passes now  ") + json.dumps({"op": "split_solve", "problem": v["problem"], "k": v["k"], "v": v["v"]})[:300])
                still += 1 if bad else 0
            elif "alg" in v and "box" in v:
                box = [tuple(d) for d in v["box"]]
                st, out = nv.impl_prop(v["alg"], v["params"], box)
                bad = props_sweep.check_case(v["alg"], v["params"], box, st, out, {"sound", "ground", "entail", "exact", "oob", "term"})
                print(("STILL FAILS " if bad else "passes now  ") + json.dumps({k: v[k] for k in ("alg", "params", "box")}) + (" :: " + bad[0][1] if bad else ""))
                still += 1 if bad else 0
            elif v.get("op") in ("solve", "opt") or ("problem" in v and "cfg" in v and "rewrite" not in v):
                c = dict(v)
                c.setdefault("op", "solve")
                prob = nv.Prob.from_json(c["problem"])
                cfg = nv.Cfg(**c["cfg"])
                if c.get("observe"):
                    import corr_engine as ce

                    res = ce._exec_case(c)
                else:
                    res = nv.impl_solve(prob, cfg, c.get("limit")) if c["op"] == "solve" else nv.impl_optimize(prob, cfg, c["v"], c["minimize"])
                bad = _solver.direct_checks(c, res, {"sat", "enum", "opt", "stats", "term", "oob", "stack", "crash"})
                print(("STILL FAILS " if bad else "passes now  ") + json.dumps({"op": c["op"], "problem": c["problem"]})[:300] + (" :: " + bad[0][1] if bad else ""))
                still += 1 if bad else 0
            else:
                print("not replayable generically (re-run the check): " + json.dumps(v)[:300])
        except Exception as e:  # noqa: BLE001
            print("replay raised " + type(e).__name__ + ": " + str(e)[:200])
            still += 1
    if still:
        print(f"VIOLATION property={prop} replay={path}")
        return 1
    return 0


def main():
    ap = argparse.ArgumentParser()
    ap.add_argument("prop")
    ap.add_argument("--tier", default=os.environ.get("VERIF_TIER", "quick"))
    ap.add_argument("--replay", default=None)
    a = ap.parse_args()
    seed = int(os.environ.get("VERIF_SEED", "0") or 0)
    tier = a.tier if a.tier in ("quick", "thorough") else "quick"
    prop = a.prop
    t0 = time.time()
    # infrastructure watchdog for the whole check: a time-out is exit 2, never a violation
    import threading

    def _too_long():
        print(f"TIMEOUT: check {prop} exceeded its overall time limit")
        try:
            changed = nv.changed_files()
        except Exception:  # noqa: BLE001
            changed = []
        if changed and tier == "quick":
            # on the validated tree this check takes seconds to minutes: a run that does not finish on a CHANGED tree means that the
            # implementation no longer returns under the harness somewhere outside the per-call watchdogs.  The property is no longer
            # shown to hold; no concrete input was isolated.
            os.makedirs(os.path.join(nv.OUT, "replays"), exist_ok=True)
            rp = os.path.join(nv.OUT, "replays", f"{prop}-{int(time.time())}.json")
            with open(rp, "w") as f:
                json.dump({"property": prop, "kind": "no-failing-input-found", "seed": seed,
                           "no_longer_checks": [{"broken": "correspondence", "component": "the check did not complete within its overall time limit "
                                                 "on a source tree that differs from the validated one: the implementation does not return on generated "
                                                 "in-contract inputs (outside the per-call watchdogs)", "source_files_changed": changed}]}, f, indent=1)
            print(f"VIOLATION property={prop} replay={rp} no-failing-input-found")
            sys.stdout.flush()
            os._exit(1)
        sys.stdout.flush()
        os._exit(2)

    wd = threading.Timer((1500 if not nv.changed_files() else 900) if tier == "quick" else 4 * 3600, _too_long)
    wd.daemon = True
    wd.start()
    try:
        mod = importlib.import_module("props." + prop)
    except ModuleNotFoundError:
        print(f"no check for {prop}")
        return 2
    report = nv.Report(prop, tier, seed)
    if a.replay:
        return replay(prop, a.replay)
    try:
        th = nv.tree_hash()
        report.cov["tree_hash"] = th
        ps = proof_status(prop)
        if tier == "thorough" and ps["ok"]:
            ok, msg = leanchecker(prop)
            report.cov["leanchecker"] = "ok" if ok else msg
            if not ok:
                ps["ok"] = False
                ps["problems"].append("leanchecker: " + msg)
        report.cov["obligations"] = len(ps["theorems"])
        report.cov["discharged"] = len(ps["theorems"]) if ps["ok"] else 0
        report.cov["theorems"] = ps["theorems"]
        report.cov["axioms"] = ps["axioms"]
        report.cov["helper_theorems_in_project"] = ps["helper_theorems"]
        report.cov["checker_cmd"] = "cd lean && lake build && lake env lean <#print axioms of every theorem in NucsProofs/Properties/%s.lean>%s" % (
            prop, " && lake env leanchecker NucsProofs.Properties.%s" % prop if tier == "thorough" else "")
        report.cov["trusted_base"] = TRUSTED_BASE
        ctx = {"tier": tier, "seed": seed, "report": report, "proof": ps, "replay": a.replay, "known": load_known()}
        result = mod.run(ctx)  # dict: corr_diffs [..], violations [..], known [..], notes
    except Infra as e:
        print("INFRASTRUCTURE FAILURE:", e)
        return 2
    except subprocess.TimeoutExpired as e:
        print("TIMEOUT:", e)
        return 2
    except Exception as e:  # noqa: BLE001
        # an exception that escaped from the IMPLEMENTATION while the harness was driving it in-process on an in-contract input is a
        # finding (the check could not be completed because the code raised); one that never touched /repo is a harness failure
        import traceback

        tb = traceback.format_exc()
        if os.path.join(nv.REPO, "nucs") in tb:
            os.makedirs(os.path.join(nv.OUT, "replays"), exist_ok=True)
            rp = os.path.join(nv.OUT, "replays", f"{prop}-{int(time.time())}.json")
            with open(rp, "w") as f:
                json.dump({"property": prop, "kind": "no-failing-input-found", "tree_hash": th, "seed": seed,
                           "no_longer_checks": [{"broken": "correspondence", "component": "the implementation raised " + type(e).__name__ +
                                                 " while the harness drove it on generated in-contract inputs; the check could not be completed",
                                                 "traceback": tb[-3000:]}]}, f, indent=1)
            print(tb[-1500:])
            print(f"VIOLATION property={prop} replay={rp} no-failing-input-found")
            return 1
        print("INFRASTRUCTURE FAILURE (harness exception):")
        print(tb[-3000:])
        return 2
    corr_diffs = result.get("corr_diffs", [])
    violations = result.get("violations", [])
    known = result.get("known", [])
    report.cov["correspondence_differences"] = len(corr_diffs)
    report.cov["partial"] = result.get("partial", [])
    report.cov["hypotheses_not_theorems"] = result.get("hypotheses", [])
    for k in known:
        print(f"KNOWN-FINDING: property={prop} {k}")
    rc = 0
    os.makedirs(os.path.join(nv.OUT, "replays"), exist_ok=True)
    if violations:
        rp = os.path.join(nv.OUT, "replays", f"{prop}-{int(time.time())}.json")
        with open(rp, "w") as f:
            json.dump({"property": prop, "kind": "failing-input", "tree_hash": th, "seed": seed,
                       "violations": violations[:20], "proof_problems": ps["problems"], "correspondence_differences": corr_diffs[:20]}, f, indent=1, default=str)
        print(f"VIOLATION property={prop} replay={rp}")
        rc = 1
    elif corr_diffs or not ps["ok"]:
        rp = os.path.join(nv.OUT, "replays", f"{prop}-{int(time.time())}.json")
        what = []
        if not ps["ok"]:
            what.append({"broken": "proof", "theorems": ps["theorems"], "problems": ps["problems"]})
        if corr_diffs:
            what.append({"broken": "correspondence", "component": result.get("component", prop), "differences": corr_diffs[:20]})
        with open(rp, "w") as f:
            json.dump({"property": prop, "kind": "no-failing-input-found", "tree_hash": th, "seed": seed, "no_longer_checks": what}, f, indent=1, default=str)
        print(f"VIOLATION property={prop} replay={rp} no-failing-input-found")
        rc = 1
    report.violations = violations if violations else ([1] if rc else [])
    report.assumptions = result.get("assumptions", [])
    report.write()
    print(f"{prop} tier={tier} seed={seed} proof_ok={ps['ok']} theorems={len(ps['theorems'])} evaluations={report.cov['evaluations']} "
          f"corr_diffs={len(corr_diffs)} violations={len(violations)} wall={time.time()-t0:.1f}s")
    return rc


if __name__ == "__main__":
    sys.exit(main())
