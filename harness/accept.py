"""
Constructed objects beyond the reach of search (C20): literature-optimal Golomb rulers up to 14 marks, explicit queens placements,
Siamese magic squares, cyclic latin squares, the closed-form magic sequences, a 3-colouring of 1..13 without monochromatic sums,
the Fano plane.  Every object is first validated by the independent definition-level validator of props/C20.py (a typo in a table
makes the object be skipped, never an alarm); then the shipped model is asked whether it ACCEPTS the object: the declared domains
must contain it and, with the domains pinned to it, the real solver must return exactly this one solution.
A model whose domains, redundant or symmetry constraints cut valid objects only at sizes no enumeration reaches is caught here.
"""
import itertools

GOLOMB_OPT = {
    5: [0, 1, 4, 9, 11], 6: [0, 1, 4, 10, 12, 17], 7: [0, 1, 4, 10, 18, 23, 25], 8: [0, 1, 4, 9, 15, 22, 32, 34],
    9: [0, 1, 5, 12, 25, 27, 35, 41, 44], 10: [0, 1, 6, 10, 23, 26, 34, 41, 53, 55],
    11: [0, 1, 4, 13, 28, 33, 47, 54, 64, 70, 72], 12: [0, 2, 6, 24, 29, 40, 43, 55, 68, 75, 76, 85],
    13: [0, 2, 5, 25, 37, 43, 59, 70, 85, 89, 98, 99, 106], 14: [0, 4, 6, 20, 35, 52, 59, 77, 78, 86, 89, 99, 122, 127],
}


def golomb_vector(marks):
    """the model's variables: dist_ij for i < j in row-major order"""
    n = len(marks)
    return [marks[j] - marks[i] for i in range(n - 1) for j in range(i + 1, n)]


def golomb_objects():
    out = []
    for n, m in GOLOMB_OPT.items():
        out.append((n, m, "literature optimum"))
    for n in (5, 6, 7, 8):
        out.append((n, [2 ** i - 1 for i in range(n)], "powers of two"))
    for n in (5, 7, 9):
        # a sparse, far-from-optimal ruler that stays inside the documented domain [.., sum_first(dist_nb)]
        m = [0]
        for i in range(1, n):
            m.append(m[-1] + i * i + 1)
        out.append((n, m, "sparse"))
    return out


def queens_object(n):
    if n % 6 in (2, 3):
        return None
    return [2 * i + 1 for i in range(n // 2)] + [2 * i for i in range((n + 1) // 2)]


def siamese(n):
    sq = [[None] * n for _ in range(n)]
    i, j = 0, n // 2
    for k in range(n * n):
        sq[i][j] = k
        i2, j2 = (i - 1) % n, (j + 1) % n
        if sq[i2][j2] is not None:
            i2, j2 = (i + 1) % n, j
        i, j = i2, j2
    return sq


def dihedral(sq):
    n = len(sq)
    cur = [row[:] for row in sq]
    for _ in range(4):
        cur = [[cur[n - 1 - j][i] for j in range(n)] for i in range(n)]
        yield cur
        yield [row[::-1] for row in cur]


def magic_sequence_object(n):
    if n < 7:
        return None
    s = [0] * n
    s[0], s[1], s[2], s[n - 4] = n - 4, 2, 1, 1
    return s


SCHUR13 = [{1, 4, 10, 13}, {2, 3, 11, 12}, {5, 6, 7, 8, 9}]
FANO = [[0, 1, 2], [0, 3, 4], [0, 5, 6], [1, 3, 5], [1, 4, 6], [2, 3, 6], [2, 4, 5]]


def pinned(prob, vector):
    """prob (nv.Prob) with every shared domain intersected with the value the vector gives it; None when some declared domain
    excludes the object (or two views of one domain disagree)"""
    import nv

    val = {}
    for v, (d, o) in enumerate(zip(prob.idx, prob.off)):
        x = vector[v] - o
        if val.setdefault(d, x) != x:
            return None, f"variable {v} and another view of shared domain {d} disagree"
    shr = []
    for d, (lo, hi) in enumerate(prob.shr):
        if d in val:
            if not (lo <= val[d] <= hi):
                return None, f"the declared domain [{lo}, {hi}] of shared domain {d} excludes the value {val[d]}"
            shr.append((val[d], val[d]))
        else:
            shr.append((lo, hi))
    return nv.Prob(shr, prob.idx, prob.off, prob.props), None


def accepts(prob, vector, nvars):
    """-> None when the model accepts the object, else a description"""
    import nv

    p, why = pinned(prob, vector)
    if p is None:
        return why
    r = nv.impl_solve(p, nv.Cfg(), limit=3)
    if r[0] != "ok":
        return f"the solver did not answer on the pinned model: {r[0]} {r[1]}"
    got = [s[:nvars] for s in r[1]]
    if got != [list(vector[:nvars])]:
        return f"with the domains pinned to the object the solver returns {len(got)} solution(s) instead of exactly the object"
    return None
