#!/usr/bin/env python3
"""writes /verif/baseline_tree.json: the per-file hashes of /repo/nucs at the tree the machinery was last validated on (run by hand
after a `fix:` commit; NEVER by setup.sh or a check — a check must not adopt a changed tree as its baseline)"""
import json
import os

import nv

files = nv.file_hashes()
json.dump({"tree_hash": nv.tree_hash(), "files": files}, open(os.path.join(nv.VERIF, "baseline_tree.json"), "w"), indent=1, sort_keys=True)
print(len(files), "files", nv.tree_hash())
