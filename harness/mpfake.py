"""
Scripted stand-ins for multiprocessing.Queue / Process, bound into
nucs.solvers.multiprocessing_solver's module globals: `start()` runs the REAL worker method
synchronously into a per-worker buffer; `get()` hands the buffered messages to the REAL parent loop
in the order a schedule dictates; a schedule entry ('T', alive) makes `get` time out and fixes what
`is_alive()` answers afterwards.
"""
import queue as _queue

import numpy as np


class Script:
    def __init__(self, k):
        self.buffers = [[] for _ in range(k)]
        self.schedule = []
        self.pos = 0
        self.alive = [True] * k
        self.delivered = []  # what the parent actually consumed, in order (for the model)
        self.terminated = False
        self.die_after = {}  # worker -> number of messages after which it "dies" (messages beyond are dropped)


class FakeQueue:
    script = None

    def __init__(self):
        self.s = FakeQueue.script

    def put(self, item):
        w, sol, stats = item
        self.s.buffers[w].append((w, None if sol is None else np.array(sol).copy(), np.array(stats).copy()))

    def get(self, timeout=None):
        s = self.s
        if s.pos >= len(s.schedule):
            # nothing scheduled any more: behave like an empty queue with every unfinished worker dead
            s.alive = [False] * len(s.alive)
            s.delivered.append(("t", list(s.alive)))
            raise _queue.Empty
        ev = s.schedule[s.pos]
        s.pos += 1
        if ev[0] == "T":
            s.alive = list(ev[1])
            s.delivered.append(("t", list(s.alive)))
            raise _queue.Empty
        w = ev[1]
        item = s.buffers[w].pop(0)
        s.delivered.append(("m", w, None if item[1] is None else [int(x) for x in item[1]], [int(x) for x in item[2]]))
        return item


class FakeProcess:
    script = None
    count = 0

    def __init__(self, target=None, args=()):
        self.target, self.args = target, args
        self.idx = FakeProcess.count
        FakeProcess.count += 1

    def start(self):
        self.target(*self.args)
        s = FakeProcess.script
        if self.idx in s.die_after:
            s.buffers[self.idx] = s.buffers[self.idx][: s.die_after[self.idx]]

    def is_alive(self):
        return FakeProcess.script.alive[self.idx]

    @property
    def exitcode(self):
        # None while alive; a dead scripted worker reports the CLEAN status 0 (the most adversarial value: a parent that takes
        # "exit status 0" for "finished properly" never notices that the completion marker is missing)
        return None if FakeProcess.script.alive[self.idx] else 0

    def join(self, timeout=None):
        return None

    def terminate(self):
        FakeProcess.script.terminated = True


def install(k):
    import nucs.solvers.multiprocessing_solver as M

    s = Script(k)
    FakeQueue.script = s
    FakeProcess.script = s
    FakeProcess.count = 0
    M.Queue = FakeQueue
    M.Process = FakeProcess
    return s


def interleavings(counts, limit=None, rng=None):
    """all sequences over worker indices in which worker i occurs counts[i] times (its messages in order)"""
    out = []

    def rec(rem, acc):
        if limit is not None and len(out) >= limit:
            return
        if all(r == 0 for r in rem):
            out.append(list(acc))
            return
        order = list(range(len(rem)))
        if rng is not None:
            rng.shuffle(order)
        for i in order:
            if rem[i] > 0:
                rem[i] -= 1
                acc.append(i)
                rec(rem, acc)
                acc.pop()
                rem[i] += 1

    rec(list(counts), [])
    return out
