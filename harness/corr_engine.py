"""
Whole-solver correspondence: generated problems × configurations are solved by the real
BacktrackSolver (in a watchdog-supervised worker process, interpreted or compiled) and by the Lean
model; solution SEQUENCES and the 13 statistics must be identical.  Independently of the model the
results of the real solver are compared with a brute-force enumeration (failing-input search).

usage as worker:  python corr_engine.py worker <jit|nojit> <cases.json> <out.json> <progress>
"""
import json
import os
import random
import subprocess
import sys
import time

HERE = os.path.dirname(os.path.abspath(__file__))
sys.path.insert(0, HERE)
import nv  # noqa: E402
import oracle  # noqa: E402

INT_ALGS = [
    "affine_eq", "affine_geq", "affine_leq", "alldifferent", "count_eq", "dummy", "element_iv", "element_liv",
    "element_lic", "exactly_eq", "gcc", "lexicographic_leq", "max_eq", "max_leq", "min_eq", "min_geq", "relation",
]


def pick_vars(rng, nvars, k, dup_ok=True):
    if dup_ok and rng.random() < 0.25 or k > nvars:
        return [rng.randrange(nvars) for _ in range(k)]
    return rng.sample(range(nvars), k)


def view(prob, v):
    a, b = prob.shr[prob.idx[v]]
    return a + prob.off[v], b + prob.off[v]


def make_prop(rng, prob, alg):
    """a constraint on `prob`'s variables respecting the documented contract; None if impossible"""
    nv_ = len(prob.idx)
    if alg in ("affine_eq", "affine_geq", "affine_leq"):
        k = rng.randint(1, min(4, max(1, nv_)))
        vs = pick_vars(rng, nv_, k)
        cs = [rng.choice([-3, -2, -1, 0, 1, 1, 2, 3]) for _ in vs]
        mid = sum(c * rng.randint(*view(prob, v)) for c, v in zip(cs, vs))
        return vs, alg, cs + [mid + rng.randint(-2, 2)]
    if alg == "alldifferent":
        k = rng.randint(1, min(4, nv_))
        return pick_vars(rng, nv_, k), alg, []
    if alg == "count_eq":
        k = rng.randint(1, min(4, nv_))
        vs = pick_vars(rng, nv_, k)
        return vs, alg, [rng.randint(*view(prob, vs[0]))]
    if alg == "dummy":
        return pick_vars(rng, nv_, rng.randint(1, min(3, nv_))), alg, []
    if alg == "element_iv":
        vs = pick_vars(rng, nv_, 2)
        m = rng.randint(1, 5)
        lo, hi = view(prob, vs[1])
        return vs, alg, [rng.randint(lo - 1, hi + 1) for _ in range(m)]
    if alg == "element_lic":
        k = rng.randint(2, min(4, max(2, nv_)))
        vs = pick_vars(rng, nv_, k)
        return vs, alg, [rng.randint(*view(prob, vs[0]))]
    if alg == "element_liv":
        k = rng.randint(3, min(5, max(3, nv_)))
        return pick_vars(rng, nv_, k), alg, []
    if alg == "exactly_eq":
        k = rng.randint(1, min(4, nv_))
        vs = pick_vars(rng, nv_, k)
        return vs, alg, [rng.randint(*view(prob, vs[0])), rng.randint(0, k)]
    if alg == "gcc":
        k = rng.randint(1, min(4, nv_))
        vs = pick_vars(rng, nv_, k)
        v0 = min(view(prob, v)[0] for v in vs)
        m = max(view(prob, v)[1] for v in vs) - v0 + 1
        if m > 7:
            return None
        l = [rng.choice([0, 0, 1]) for _ in range(m)]
        u = [max(1, x + rng.randint(0, 2)) for x in l]
        return vs, alg, [v0] + l + u
    if alg == "lexicographic_leq":
        h = rng.randint(1, 2)
        return pick_vars(rng, nv_, 2 * h), alg, []
    if alg in ("max_eq", "max_leq", "min_eq", "min_geq"):
        k = rng.randint(2, min(4, max(2, nv_)))
        return pick_vars(rng, nv_, k), alg, []
    if alg == "relation":
        k = rng.randint(1, min(3, nv_))
        vs = pick_vars(rng, nv_, k)
        rows = []
        for _ in range(rng.randint(1, 5)):
            rows.append([rng.randint(*view(prob, v)) for v in vs])
        if rng.random() < 0.3:
            rows.append(list(rows[0]))
        return vs, alg, [x for r in rows for x in r]
    if alg in ("and", "exactly_true"):
        boolv = [v for v in range(nv_) if 0 <= view(prob, v)[0] and view(prob, v)[1] <= 1]
        if not boolv:
            return None
        k = rng.randint(1, min(4, len(boolv)))
        vs = [rng.choice(boolv) for _ in range(k)] if rng.random() < 0.25 else rng.sample(boolv, k)
        return vs, alg, ([] if alg == "and" else [rng.randint(0, k)])
    raise KeyError(alg)


def gen_problem(rng):
    theme = rng.choice(["int", "int", "int", "bool", "circuit"])
    if theme == "circuit":
        n = rng.randint(2, 5)
        shr = []
        for _ in range(n):
            a = rng.randint(0, n - 1)
            shr.append((rng.randint(0, a), rng.randint(a, n - 1)) if rng.random() < 0.8 else (0, n - 1))
        p = nv.Prob(shr)
        allv = list(range(n))
        p.props.append((allv, "alldifferent", []))
        p.props.append((allv, "no_sub_cycle", []))
        if rng.random() < 0.5:
            p.props.append((allv, "scc", []))
        if rng.random() < 0.3:
            p.props.append((allv, "no_sub_cycle", []))
        if rng.random() < 0.4:
            q = make_prop(rng, p, rng.choice(["affine_leq", "max_leq", "element_iv", "count_eq"]))
            if q:
                p.props.append(q)
        rng.shuffle(p.props)
        return p, theme
    nshr = rng.randint(1, 4)
    shr = []
    for _ in range(nshr):
        if theme == "bool":
            shr.append(rng.choice([(0, 1), (0, 1), (0, 0), (1, 1)]))
        else:
            a = rng.randint(-3, 3)
            shr.append((a, a + rng.choice([0, 1, 2, 2, 3, 4])))
    idx = list(range(nshr))
    off = [0] * nshr
    for _ in range(rng.choice([0, 0, 1, 2, 3])):
        idx.append(rng.randrange(nshr))
        off.append(0 if theme == "bool" else rng.randint(-2, 2))
    p = nv.Prob(shr, idx, off)
    algs = INT_ALGS + (["and", "exactly_true"] * 4 if theme == "bool" else [])
    for _ in range(rng.randint(1, 4)):
        q = make_prop(rng, p, rng.choice(algs))
        if q:
            p.props.append(q)
    return p, theme


def gen_cfg(rng, prob, cons=None):
    cons = rng.randint(0, 1) if cons is None else cons
    nonneg = all(a >= 0 for a, b in prob.shr)
    maxv = max(b for a, b in prob.shr)
    varh = rng.randint(0, 3 if nonneg else 2)
    domh = rng.randint(0, 4 if nonneg else 3)
    costs = [[rng.choice([1, 1, 2, 3, 5]) for _ in range(maxv + 1)] for _ in prob.shr] if nonneg else [[]]
    return nv.Cfg(cons=cons, varh=varh, domh=domh, var_costs=costs if varh == 3 else [[]], dom_costs=costs if domh == 4 else [[]])


# ----------------------------------------------------------------------------- worker side


def worker(mode, cases_file, out_file, progress_file):
    nv.setup_env(jit=(mode == "jit"))
    with open(cases_file) as f:
        cases = json.load(f)
    out = []
    for i, c in enumerate(cases):
        with open(progress_file, "w") as pf:
            pf.write(str(i))
        prob = nv.Prob.from_json(c["problem"])
        cfg = nv.Cfg(**c["cfg"])
        if c["op"] == "solve":
            out.append(nv.impl_solve(prob, cfg, c.get("limit")))
        else:
            out.append(nv.impl_optimize(prob, cfg, c["v"], c["minimize"]))
    with open(out_file, "w") as f:
        json.dump(out, f)


def cfg_json(cfg):
    return {"cons": cfg.cons, "varh": cfg.varh, "domh": cfg.domh, "var_costs": cfg.var_costs, "dom_costs": cfg.dom_costs,
            "decision": cfg.decision, "height": cfg.height}


def run_impl(cases, jit, timeout_per_batch=240, tag="w"):
    """run the cases in a supervised worker; returns list of results, a hung case gives ('hang', …)"""
    os.makedirs(os.path.join(nv.VERIF, ".cache", "work"), exist_ok=True)
    base = os.path.join(nv.VERIF, ".cache", "work", f"{tag}-{os.getpid()}-{int(time.time()*1000)%100000}")
    results = [None] * len(cases)
    todo = list(range(len(cases)))
    while todo:
        with open(base + ".cases", "w") as f:
            json.dump([cases[i] for i in todo], f)
        if os.path.exists(base + ".prog"):
            os.remove(base + ".prog")
        try:
            r = subprocess.run([sys.executable, os.path.abspath(__file__), "worker", "jit" if jit else "nojit",
                                base + ".cases", base + ".out", base + ".prog"], capture_output=True, text=True,
                               timeout=timeout_per_batch + (150 if jit else 0))
            if r.returncode != 0:
                # a crash (e.g. segfault) of the real code: attribute it to the case in progress
                k = int(open(base + ".prog").read()) if os.path.exists(base + ".prog") else 0
                results[todo[k]] = ("crash", r.stderr[-300:], None)
                # the cases before k are lost with the process: re-run them separately
                before, after = todo[:k], todo[k + 1:]
                for grp in (before,):
                    if grp:
                        sub = run_impl([cases[i] for i in grp], jit, timeout_per_batch, tag)
                        for i, rr in zip(grp, sub):
                            results[i] = rr
                todo = after
                continue
            with open(base + ".out") as f:
                out = json.load(f)
            for i, rr in zip(todo, out):
                results[i] = tuple(rr)
            todo = []
        except subprocess.TimeoutExpired:
            k = int(open(base + ".prog").read()) if os.path.exists(base + ".prog") else 0
            results[todo[k]] = ("hang", f"no answer within the watchdog ({timeout_per_batch}s for the batch)", None)
            before, after = todo[:k], todo[k + 1:]
            if before:
                sub = run_impl([cases[i] for i in before], jit, timeout_per_batch, tag)
                for i, rr in zip(before, sub):
                    results[i] = rr
            todo = after
    for ext in (".cases", ".out", ".prog"):
        if os.path.exists(base + ext):
            os.remove(base + ext)
    return results


def model_lines(cases):
    lines = []
    for c in cases:
        prob = nv.Prob.from_json(c["problem"])
        cfg = nv.Cfg(**c["cfg"])
        if c["op"] == "solve":
            lim = c.get("limit")
            lines.append(f"solve {prob.enc()} {cfg.enc(prob)} {lim if lim is not None else 1000000}")
        else:
            lines.append(f"opt {prob.enc()} {cfg.enc(prob)} {c['v']} {'min' if c['minimize'] else 'max'}")
    return lines


def impl_line(c, res):
    kind = res[0]
    if kind == "ok":
        if c["op"] == "solve":
            sols = ";".join(nv.enc_ints(s) for s in res[1]) if res[1] else "-"
            return f"{sols} {nv.enc_ints(res[2])}"
        return f"{'none' if res[1] is None else nv.enc_ints(res[1])} {nv.enc_ints(res[2])}"
    if kind == "err":
        return "err " + res[1]
    return kind


if __name__ == "__main__":
    if sys.argv[1] == "worker":
        worker(sys.argv[2], sys.argv[3], sys.argv[4], sys.argv[5])
