"""
Whole-solver correspondence: generated problems × configurations are solved by the real
BacktrackSolver (in a watchdog-supervised worker process, interpreted or compiled) and by the Lean
model; solution SEQUENCES and the 13 statistics must be identical.  Independently of the model the
results of the real solver are compared with a brute-force enumeration (failing-input search).

usage as worker:  python corr_engine.py worker <jit|nojit> <cases.json> <out.json> <progress>
"""
import json
import os
import random
import subprocess
import sys
import time

HERE = os.path.dirname(os.path.abspath(__file__))
sys.path.insert(0, HERE)
import nv  # noqa: E402
import oracle  # noqa: E402

INT_ALGS = [
    "affine_eq", "affine_geq", "affine_leq", "alldifferent", "count_eq", "dummy", "element_iv", "element_liv",
    "element_lic", "exactly_eq", "gcc", "lexicographic_leq", "max_eq", "max_leq", "min_eq", "min_geq", "relation",
]


def pick_vars(rng, nvars, k, dup_ok=True):
    if dup_ok and rng.random() < 0.25 or k > nvars:
        return [rng.randrange(nvars) for _ in range(k)]
    return rng.sample(range(nvars), k)


def view(prob, v):
    a, b = prob.shr[prob.idx[v]]
    return a + prob.off[v], b + prob.off[v]


def make_prop(rng, prob, alg):
    """a constraint on `prob`'s variables respecting the documented contract; None if impossible"""
    nv_ = len(prob.idx)
    if alg in ("affine_eq", "affine_geq", "affine_leq"):
        k = rng.randint(1, min(4, max(1, nv_)))
        vs = pick_vars(rng, nv_, k)
        cs = [rng.choice([-3, -2, -1, 0, 1, 1, 2, 3]) for _ in vs]
        mid = sum(c * rng.randint(*view(prob, v)) for c, v in zip(cs, vs))
        return vs, alg, cs + [mid + rng.randint(-2, 2)]
    if alg == "alldifferent":
        k = rng.randint(1, min(4, nv_))
        return pick_vars(rng, nv_, k), alg, []
    if alg == "count_eq":
        k = rng.randint(1, min(4, nv_))
        vs = pick_vars(rng, nv_, k)
        return vs, alg, [rng.randint(*view(prob, vs[0]))]
    if alg == "dummy":
        return pick_vars(rng, nv_, rng.randint(1, min(3, nv_))), alg, []
    if alg == "element_iv":
        vs = pick_vars(rng, nv_, 2)
        m = rng.randint(1, 5)
        lo, hi = view(prob, vs[1])
        return vs, alg, [rng.randint(lo - 1, hi + 1) for _ in range(m)]
    if alg == "element_lic":
        k = rng.randint(2, min(4, max(2, nv_)))
        vs = pick_vars(rng, nv_, k)
        return vs, alg, [rng.randint(*view(prob, vs[0]))]
    if alg == "element_liv":
        k = rng.randint(3, min(5, max(3, nv_)))
        return pick_vars(rng, nv_, k), alg, []
    if alg == "exactly_eq":
        k = rng.randint(1, min(4, nv_))
        vs = pick_vars(rng, nv_, k)
        return vs, alg, [rng.randint(*view(prob, vs[0])), rng.randint(0, k)]
    if alg == "gcc":
        k = rng.randint(1, min(4, nv_))
        vs = pick_vars(rng, nv_, k)
        v0 = min(view(prob, v)[0] for v in vs)
        m = max(view(prob, v)[1] for v in vs) - v0 + 1
        if m > 7:
            return None
        l = [rng.choice([0, 0, 1]) for _ in range(m)]
        u = [max(1, x + rng.randint(0, 2)) for x in l]
        return vs, alg, [v0] + l + u
    if alg == "lexicographic_leq":
        h = rng.randint(1, 2)
        return pick_vars(rng, nv_, 2 * h + (1 if rng.random() < 0.2 else 0)), alg, []
    if alg in ("max_eq", "max_leq", "min_eq", "min_geq"):
        k = rng.randint(2, min(4, max(2, nv_)))
        return pick_vars(rng, nv_, k), alg, []
    if alg == "relation":
        k = rng.randint(1, min(3, nv_))
        vs = pick_vars(rng, nv_, k)
        rows = []
        for _ in range(rng.randint(1, 5)):
            rows.append([rng.randint(*view(prob, v)) for v in vs])
        if rng.random() < 0.3:
            rows.append(list(rows[0]))
        return vs, alg, [x for r in rows for x in r]
    if alg in ("and", "exactly_true"):
        boolv = [v for v in range(nv_) if 0 <= view(prob, v)[0] and view(prob, v)[1] <= 1]
        if not boolv:
            return None
        k = rng.randint(1, min(4, len(boolv)))
        vs = [rng.choice(boolv) for _ in range(k)] if rng.random() < 0.25 else rng.sample(boolv, k)
        return vs, alg, ([] if alg == "and" else [rng.randint(0, k)])
    raise KeyError(alg)


def gen_problem(rng):
    theme = rng.choice(["int", "int", "int", "int", "int", "int", "bool", "bool", "circuit", "circuit", "graph", "wide"])
    if theme == "wide":
        # domains of 64..140 values (the small themes never exceed 5): few solutions thanks to a linear relation, so that whole
        # enumerations, optimisation and shaving stay cheap while every width-dependent path of the engine is reached
        kind = rng.choice(["sum", "sum", "digits", "gap"])
        a, b = rng.randint(-40, 40), rng.randint(-40, 40)
        w0, w1 = rng.randint(64, 140), rng.randint(64, 140)
        if kind == "sum":
            p = nv.Prob([(a, a + w0), (b, b + w1)])
            c0, c1 = rng.choice([(1, 1), (1, 1), (1, -1), (2, 1)])
            p.props.append(([0, 1], "affine_eq", [c0, c1, c0 * rng.randint(a, a + w0) + c1 * rng.randint(b, b + w1)]))
        elif kind == "digits":
            k = rng.randint(20, 40)
            p = nv.Prob([(0, w0 + 60), (0, rng.randint(2, 4)), (0, rng.randint(0, 3))])
            p.props.append(([0, 1, 2], "affine_eq", [1, -k, -1, 0]))
        else:
            p = nv.Prob([(a, a + w0), (a, a + w0)])
            p.props.append(([0, 1], "affine_leq", [1, -1, -(w0 - rng.randint(1, 4))]))
        if rng.random() < 0.4:
            q = make_prop(rng, p, rng.choice(["affine_leq", "max_leq", "min_geq", "alldifferent"]))
            if q:
                p.props.append(q)
        rng.shuffle(p.props)
        return p, theme
    if theme == "graph":
        # strong connectivity posted WITHOUT alldifferent (it is decisive on instantiated successor tuples by itself, but a weak
        # filter on intervals: the search and shaving have to do the work)
        n = rng.randint(2, 5)
        shr = []
        for _ in range(n):
            a = rng.randint(0, n - 1)
            shr.append((rng.randint(0, a), rng.randint(a, n - 1)) if rng.random() < 0.7 else (0, n - 1))
        p = nv.Prob(shr)
        p.props.append((list(range(n)), "scc", []))
        if rng.random() < 0.3:
            q = make_prop(rng, p, rng.choice(["affine_leq", "max_leq", "count_eq", "lexicographic_leq"]))
            if q:
                p.props.append(q)
        rng.shuffle(p.props)
        return permute_vars(rng, p), theme
    if theme == "circuit" and rng.random() < 0.15:
        # "pinch": a successor x in [a, a+2] and its view x+1 in one alldifferent whose other members sit at a and a+3 — the two views
        # are pruned from opposite sides in ONE call and only their intersection is a single value (next to no_sub_cycle, which is
        # woken by instantiation only)
        n = rng.randint(5, 6)
        a = rng.randint(0, n - 4)
        shr = [(0, n - 1)] * n
        order = list(range(n))
        rng.shuffle(order)
        x, lo, hi = order[0], order[1], order[2]
        shr[x] = (a, a + 2)
        shr[lo] = (a, a) if rng.random() < 0.7 else (a, a + 1)
        shr[hi] = (a + 3, a + 3) if rng.random() < 0.7 else (a + 2, a + 3)
        for w in order[3:]:
            if rng.random() < 0.5:
                c = rng.randint(0, n - 1)
                shr[w] = (c, c)
        p = nv.Prob(shr, list(range(n)) + [x], [0] * n + [1])
        allv = list(range(n))
        p.props.append((allv, "no_sub_cycle", []))
        p.props.append((allv, "alldifferent", []))  # no_sub_cycle is only posted together with alldifferent (DESIGN §6)
        side = [x, n, lo, hi]
        rng.shuffle(side)
        p.props.append((side, "alldifferent", []))
        rng.shuffle(p.props)
        return permute_vars(rng, p), theme
    if theme == "circuit":
        n = rng.randint(2, 5)
        shr = []
        for _ in range(n):
            a = rng.randint(0, n - 1)
            shr.append((rng.randint(0, a), rng.randint(a, n - 1)) if rng.random() < 0.8 else (0, n - 1))
        p = nv.Prob(shr)
        allv = list(range(n))
        p.props.append((allv, "alldifferent", []))
        p.props.append((allv, "no_sub_cycle", []))
        if rng.random() < 0.5:
            p.props.append((allv, "scc", []))
        if rng.random() < 0.3:
            p.props.append((allv, "no_sub_cycle", []))
        if rng.random() < 0.4:
            q = make_prop(rng, p, rng.choice(["affine_leq", "max_leq", "element_iv", "count_eq"]))
            if q:
                p.props.append(q)
        if rng.random() < 0.35:
            # offset views of successor domains and a side constraint over a successor AND its view (one shared domain twice in a
            # constraint, next to the GROUND-only watcher no_sub_cycle)
            for _ in range(rng.randint(1, 2)):
                p.idx.append(rng.randrange(n))
                p.off.append(rng.choice([-2, -1, 1, 2]))
            extra = list(range(n, len(p.idx)))
            base = [p.idx[e] for e in extra]
            others = [v for v in range(n) if v not in base]
            rng.shuffle(others)
            vs = base + extra + others[: rng.randint(0, 2)]
            rng.shuffle(vs)
            alg = rng.choice(["alldifferent", "alldifferent", "max_leq", "min_geq", "affine_leq", "lexicographic_leq"])
            if alg == "affine_leq":
                cs = [rng.choice([-2, -1, 1, 2]) for _ in vs]
                p.props.append((vs, alg, cs + [sum(c * rng.randint(0, n - 1) for c in cs)]))
            elif alg == "lexicographic_leq" and len(vs) < 2:
                pass
            else:
                p.props.append((vs, alg, []))
        rng.shuffle(p.props)
        return permute_vars(rng, p), theme
    nshr = rng.randint(1, 4)
    shr = []
    for _ in range(nshr):
        if theme == "bool":
            shr.append(rng.choice([(0, 1), (0, 1), (0, 0), (1, 1)]))
        else:
            a = rng.randint(-3, 3)
            shr.append((a, a + rng.choice([0, 1, 2, 2, 3, 4])))
    idx = list(range(nshr))
    off = [0] * nshr
    for _ in range(rng.choice([0, 0, 1, 2, 3])):
        idx.append(rng.randrange(nshr))
        off.append(0 if theme == "bool" else rng.randint(-2, 2))
    p = nv.Prob(shr, idx, off)
    algs = INT_ALGS + (["and", "exactly_true"] * 4 if theme == "bool" else [])
    for _ in range(rng.randint(1, 4) if rng.random() > 0.03 else 0):  # now and then: no constraint at all
        q = make_prop(rng, p, rng.choice(algs))
        if q:
            p.props.append(q)
    if rng.random() < 0.06:
        # a linear constraint over an EMPTY list of variables (what a model generated by a loop over groups posts for an empty
        # group): 0 <= c, 0 = c or 0 >= c — possibly false, in which case the problem has no solution
        p.props.insert(rng.randint(0, len(p.props)), ([], rng.choice(["affine_leq", "affine_eq", "affine_geq"]), [rng.choice([-1, 0, 0, 1])]))
    if theme == "int":
        q = add_view_with_placeholder(rng, p)
        if q is not p:
            return q, theme  # (not permuted: the added variable must stay last for add_variable to build it)
    return permute_vars(rng, p), theme


def add_view_with_placeholder(rng, p):
    """one time in eight: a view added the way `add_variable(placeholder, dom_index=k, dom_offset=o)` does it — an extra variable
    on an EXISTING shared domain (often the first one) plus a trailing singleton placeholder domain that no variable uses"""
    if rng.random() >= 0.125 or not p.shr:
        return p
    k = 0 if rng.random() < 0.6 else rng.randrange(len(p.shr))
    c = rng.randint(-1, 2)
    q = nv.Prob(list(p.shr) + [(c, c)], list(p.idx) + [k], list(p.off) + [rng.randint(-2, 2)], p.props)
    nvars = len(q.idx)
    if q.props and rng.random() < 0.7:  # let some constraint see the new variable
        j = rng.randrange(len(q.props))
        vs, a, ps = q.props[j]
        # only constraints whose contract does not tie the parameters to the domains of their variables (gcc's value range, Booleans,
        # successor ranges would be violated by swapping in a variable with another domain)
        if vs and a in ("affine_eq", "affine_geq", "affine_leq", "alldifferent", "max_eq", "max_leq", "min_eq", "min_geq",
                        "lexicographic_leq", "count_eq", "exactly_eq", "dummy", "relation", "element_liv"):
            vs = list(vs)
            vs[rng.randrange(len(vs))] = nvars - 1
            cand = (vs, a, ps)
            q.props[j] = cand
    return q


def permute_vars(rng, p):
    """two times out of five the variables are listed in a random order, so that dom_indices is NOT the identity on a prefix
    (a shared-domain index and a variable index then differ even for the first variables)"""
    if rng.random() >= 0.4 or len(p.idx) < 2:
        return p
    nvars = len(p.idx)
    perm = list(range(nvars))
    rng.shuffle(perm)  # new position j holds old variable perm[j]
    inv = [0] * nvars
    for j, o in enumerate(perm):
        inv[o] = j
    return nv.Prob(p.shr, [p.idx[o] for o in perm], [p.off[o] for o in perm], [([inv[v] for v in vs], a, ps) for vs, a, ps in p.props])


def gen_cfg(rng, prob, cons=None):
    cons = rng.randint(0, 1) if cons is None else cons
    nonneg = all(a >= 0 for a, b in prob.shr)
    maxv = max(b for a, b in prob.shr)
    varh = rng.randint(0, 3 if nonneg else 2)
    domh = rng.randint(0, 4 if nonneg else 3)
    costs = [[rng.choice([1, 1, 2, 3, 5]) for _ in range(maxv + 1)] for _ in prob.shr] if nonneg else [[]]
    if costs != [[]]:
        # like the zero diagonal of a TSP matrix: at most ONE non-positive ("no cost") entry per row, so that every unbound
        # domain still contains a value of positive cost (the heuristic's precondition); often in the LAST column
        for row in costs:
            if row and rng.random() < 0.5:
                row[rng.choice([len(row) - 1, len(row) - 2, rng.randrange(len(row))]) % len(row)] = 0
    # every shared domain stays a decision domain (the hypothesis of C02), but in a random ORDER two times out of five
    decision = None
    if rng.random() < 0.4:
        decision = list(range(len(prob.shr)))
        rng.shuffle(decision)
    return nv.Cfg(cons=cons, varh=varh, domh=domh, var_costs=costs if varh == 3 else [[]], dom_costs=costs if domh == 4 else [[]],
                  decision=decision)


# ----------------------------------------------------------------------------- worker side


def _exec_case(c):
    if c.get("observe") and os.environ.get("NUMBA_DISABLE_JIT") == "1" and c["op"] in ("solve", "opt"):
        # C17: count the events independently of the statistics array (harness/observe.py)
        import observe

        try:
            observe.install()
            observe.reset()
        except Exception:  # noqa: BLE001  the source no longer offers the observation points: run unobserved, never an alarm
            return _exec_case(dict(c, observe=False))
        r = _exec_case(dict(c, observe=False))
        return tuple(r) + (observe.snapshot(),) if r[0] == "ok" else r
    prob = nv.Prob.from_json(c["problem"])
    cfg = nv.Cfg(**c["cfg"])
    if c["op"] == "solve":
        return nv.impl_solve(prob, cfg, c.get("limit"))
    if c["op"] == "register":
        # later registrations must not disturb anything: re-register shipped functions (legal, appends to the registries)
        import nucs.heuristics.heuristics as H
        import nucs.propagators.propagators as PR
        import nucs.solvers.consistency_algorithms as C

        # the registry contract the model states (C15_registry_*): a registration returns the OLD length, the new entry is the
        # registered function, earlier entries stay where they were (indices held by existing solvers stay valid)
        bad = []
        for what, reg, lst, fn in (("var heuristic", H.register_var_heuristic, H.VAR_HEURISTIC_FCTS, H.first_not_instantiated_var_heuristic),
                                   ("dom heuristic", H.register_dom_heuristic, H.DOM_HEURISTIC_FCTS, H.min_value_dom_heuristic),
                                   ("consistency algorithm", C.register_consistency_algorithm, C.CONSISTENCY_ALG_FCTS, C.bound_consistency_algorithm)):
            before = list(lst)
            i = reg(fn)
            if i != len(before) or len(lst) != len(before) + 1 or lst[i] is not fn or any(a is not b for a, b in zip(before, lst)):
                bad.append(f"register {what}: returned {i} with {len(before)} entries before and {len(lst)} after")
        before = (list(PR.GET_TRIGGERS_FCTS), list(PR.GET_COMPLEXITY_FCTS), list(PR.COMPUTE_DOMAINS_FCTS))
        i = PR.register_propagator(PR.get_triggers_dummy, PR.get_complexity_dummy, PR.compute_domains_dummy)
        after = (PR.GET_TRIGGERS_FCTS, PR.GET_COMPLEXITY_FCTS, PR.COMPUTE_DOMAINS_FCTS)
        fns = (PR.get_triggers_dummy, PR.get_complexity_dummy, PR.compute_domains_dummy)
        if any(i != len(b) or len(a) != len(b) + 1 or a[i] is not f or any(x is not y for x, y in zip(b, a)) for b, a, f in zip(before, after, fns)):
            bad.append(f"register_propagator: returned {i} with {len(before[2])} entries before")
        if bad:
            return ("err", "registry-contract " + "; ".join(bad), None)
        return ("ok", [], [0] * 13)
    if c["op"] == "custom_variant":
        # a user registers a custom propagator that REUSES a shipped compute function with its own trigger function; when
        # c["prior"], another variant (same compute function, other triggers) was registered and used before.  The problem
        # posts the variant in place of every affine_leq.  The outcome must not depend on the earlier registration.
        import numpy as np
        import nucs.propagators.propagators as PR
        from nucs.constants import EVENT_MASK_MIN_MAX

        try:
            def trig_eager(n, parameters):
                return np.full(n, dtype=np.uint8, fill_value=EVENT_MASK_MIN_MAX)

            def trig_builtin(n, parameters):
                return PR.get_triggers_affine_leq(n, parameters)

            def my_compute(domains, parameters):  # the user's own compute function (here it delegates to a shipped one)
                return PR.compute_domains_affine_leq(domains, parameters)

            if c.get("prior"):
                ia = PR.register_propagator(trig_eager, PR.get_complexity_affine_leq, my_compute)
                pa = prob.build()
                names = nv.alg_names()
                for k, (vs, a, ps) in enumerate(pa.propagators):
                    if names[a] == "affine_leq":
                        pa.propagators[k] = (vs, ia, ps)
                n1 = 0
                for _ in cfg.solver(pa).solve():
                    n1 += 1
                    if n1 >= 2:
                        break
            ib = PR.register_propagator(trig_builtin, PR.get_complexity_affine_leq, my_compute)
            pb = prob.build()
            names = nv.alg_names()
            for k, (vs, a, ps) in enumerate(pb.propagators):
                if names[a] == "affine_leq":
                    pb.propagators[k] = (vs, ib, ps)
            s_ = cfg.solver(pb)
            sols = [[int(x) for x in s] for s in s_.solve()]
            return ("ok", sols, nv.stats_list(s_))
        except (IndexError, OverflowError, ValueError) as e:
            return ("err", type(e).__name__, None)
    if c["op"] == "alias_params":
        # heuristic parameters handed over as an int64 ndarray that the caller re-uses afterwards: the solver must have taken its own
        # copy (c["overwrite"]: the buffer is overwritten with other costs right after construction, before solving)
        import numpy as np
        from nucs.solvers.backtrack_solver import BacktrackSolver

        try:
            costs = np.array(c["costs"], dtype=np.int64)
            buf = costs.copy()
            s_ = BacktrackSolver(prob.build(), consistency_alg_idx=nv.registry_index("cons", nv.CONS_ALGS[cfg.cons]),
                                 var_heuristic_idx=nv.registry_index("var", nv.VAR_HEURS[3]), var_heuristic_params=buf,
                                 dom_heuristic_idx=nv.registry_index("dom", nv.DOM_HEURS[4]), dom_heuristic_params=buf, log_level="ERROR")
            if c.get("overwrite"):
                buf[:, :] = buf[:, ::-1].copy() + 1
            sols = [[int(x) for x in s] for s in s_.solve()]
            return ("ok", sols, nv.stats_list(s_))
        except (IndexError, OverflowError, ValueError) as e:
            return ("err", type(e).__name__, None)
    if c["op"] == "split_solve":
        # Problem.split (public API) on a problem object that was — or was not — used by an earlier solver: the parts must mean the same
        try:
            p = prob.build()
            if c.get("prior"):
                first = cfg.solver(p)
                n1 = 0
                for _ in first.solve():
                    n1 += 1
                    if n1 >= 2:
                        break
            sols, stats = [], []
            for q in p.split(c["k"], c["v"]):
                s_ = cfg.solver(q)
                sols.append([[int(x) for x in s] for s in s_.solve()])
                stats.append(nv.stats_list(s_))
            return ("ok", sols, stats)
        except (IndexError, OverflowError, ValueError) as e:
            return ("err", type(e).__name__, None)
    if c["op"] == "solve_reuse":
        # two solvers built one after the other on the SAME problem object; the second one's run is reported
        try:
            p = prob.build()
            first = cfg.solver(p)
            n1 = 0
            for _ in first.solve():
                n1 += 1
                if n1 >= 2:
                    break  # abandoned generator
            second = cfg.solver(p)
            sols = [[int(x) for x in s] for s in second.solve()]
            return ("ok", sols, nv.stats_list(second))
        except (IndexError, OverflowError, ValueError) as e:
            return ("err", type(e).__name__, None)
    return nv.impl_optimize(prob, cfg, c["v"], c["minimize"])


def worker(mode, cases_file, out_file, progress_file):
    """runs the cases one by one; every result is appended to out_file as one JSON line as soon as it exists"""
    nv.setup_env(jit=(mode == "jit"))
    if mode == "checked":
        import boundscheck

        boundscheck.install(nv.REPO)
    with open(cases_file) as f:
        cases = json.load(f)
    with open(out_file, "w") as out:
        # a first trivial solve pays for compilation / cache loading before the per-case watchdog starts counting
        nv.impl_solve(nv.Prob([(0, 1)]), nv.Cfg())
        out.write(json.dumps("ready") + "\n")
        out.flush()
        for c in cases:
            out.write(json.dumps(_exec_case(c)) + "\n")
            out.flush()


def cfg_json(cfg):
    return {"cons": cfg.cons, "varh": cfg.varh, "domh": cfg.domh, "var_costs": cfg.var_costs, "dom_costs": cfg.dom_costs,
            "decision": cfg.decision, "height": cfg.height}


MAX_HANGS = 3


def run_impl(cases, jit, timeout_per_batch=None, tag="w", case_timeout=20, checked=False):
    """run the cases in a supervised worker process.  The parent watches the stream of results: if no new result
    appears for `case_timeout` seconds the worker is killed, the case in progress is recorded as ('hang', …) and a new
    worker continues with the next case.  After MAX_HANGS hangs the remaining cases are recorded as ('skipped', …):
    non-termination is established and every further hang would only cost time."""
    os.makedirs(os.path.join(nv.VERIF, ".cache", "work"), exist_ok=True)
    base = os.path.join(nv.VERIF, ".cache", "work", f"{tag}-{os.getpid()}-{int(time.time()*1000)%100000}")
    results = [None] * len(cases)
    todo = list(range(len(cases)))
    hangs = 0
    crashes = 0
    startup_timeout = 600 if jit else 120
    while todo:
        if hangs >= MAX_HANGS or crashes >= 6:
            for i in todo:
                results[i] = ("skipped", "after repeated hangs" if hangs >= MAX_HANGS else "after repeated crashes of the worker process", None)
            break
        with open(base + ".cases", "w") as f:
            json.dump([cases[i] for i in todo], f)
        open(base + ".out", "w").close()
        proc = subprocess.Popen([sys.executable, os.path.abspath(__file__), "worker", "checked" if checked else ("jit" if jit else "nojit"),
                                 base + ".cases", base + ".out", base + ".prog"], stdout=subprocess.DEVNULL, stderr=subprocess.PIPE)
        got, ready, last = 0, False, time.time()
        fh = open(base + ".out")
        status = None
        buf = ""
        self_hangs = [0]

        def consume(lines):
            nonlocal got, ready
            for ln in lines:
                if not ready:
                    ready = True
                    continue
                if got < len(todo):
                    results[todo[got]] = tuple(json.loads(ln))
                    if results[todo[got]][0] == "hang":
                        self_hangs[0] += 1
                    got += 1

        while True:
            chunk = fh.read()
            if chunk:
                buf += chunk
                parts = buf.split("\n")
                buf = parts.pop()  # incomplete tail (or "")
                if parts:
                    last = time.time()
                    consume(parts)
                if got == len(todo):
                    status = "done"
                    break
                if hangs + self_hangs[0] >= MAX_HANGS:
                    status = "enough"
                    break
                continue
            if proc.poll() is not None:
                buf += fh.read()
                consume([ln for ln in buf.split("\n") if ln.strip()])
                status = "done" if got == len(todo) else "crash"
                break
            if time.time() - last > (case_timeout if ready else startup_timeout):
                status = "hang"
                break
            time.sleep(0.02)
        fh.close()
        hangs += self_hangs[0]
        if status == "done":
            proc.wait()
            todo = []
        elif status == "enough":
            proc.kill()
            proc.wait()
            todo = todo[got:]
        elif status == "hang":
            proc.kill()
            proc.wait()
            hangs += 1
            if got < len(todo):
                results[todo[got]] = ("hang", f"no answer within the watchdog ({case_timeout}s for this case)", None)
                todo = todo[got + 1:]
            else:
                todo = []
        else:
            err = proc.stderr.read().decode()[-300:] if proc.stderr else ""
            proc.wait()
            crashes += 1
            if got < len(todo):
                results[todo[got]] = ("crash", f"worker exited with {proc.returncode}: {err}", None)
                todo = todo[got + 1:]
            else:
                todo = []
    for ext in (".cases", ".out", ".prog"):
        if os.path.exists(base + ext):
            os.remove(base + ext)
    return results


def model_lines(cases):
    lines = []
    for c in cases:
        prob = nv.Prob.from_json(c["problem"])
        cfg = nv.Cfg(**c["cfg"])
        if c["op"] == "register":
            lines.append("split 0:0 0:0 1 0")
            continue
        if c["op"] in ("solve", "solve_reuse"):
            lim = c.get("limit")
            lines.append(f"solve {prob.enc()} {cfg.enc(prob)} {lim if lim is not None else 1000000}")
        else:
            lines.append(f"opt {prob.enc()} {cfg.enc(prob)} {c['v']} {'min' if c['minimize'] else 'max'}")
    return lines


def impl_line(c, res):
    kind = res[0]
    if kind == "ok":
        if c["op"] == "register":
            return "0:0"
        if c["op"] in ("solve", "solve_reuse"):
            sols = ";".join(nv.enc_ints(s) for s in res[1]) if res[1] else "-"
            return f"{sols} {nv.enc_ints(res[2])}"
        return f"{'none' if res[1] is None else nv.enc_ints(res[1])} {nv.enc_ints(res[2])}"
    if kind == "err":
        return "err " + res[1]
    return kind


if __name__ == "__main__":
    if sys.argv[1] == "worker":
        worker(sys.argv[2], sys.argv[3], sys.argv[4], sys.argv[5])
