"""
Seeded generators of in-contract inputs (DESIGN.md §6).  Every random choice derives from the one
`random.Random(seed)` passed in.  `prop_scope(alg)` enumerates the exhaustive small scope of an
algorithm; `prop_random(alg, rng)` draws a wider random case.
"""
import itertools

ALGS = [
    "and", "affine_eq", "affine_geq", "affine_leq", "alldifferent", "count_eq", "dummy", "element_iv",
    "element_liv", "element_lic", "exactly_eq", "exactly_true", "gcc", "lexicographic_leq", "max_eq",
    "max_leq", "min_eq", "min_geq", "no_sub_cycle", "relation", "scc",
]
# documented as bound-consistent (docs/source/consistency_propagators.rst / property C14)
BC_ALGS = [
    "and", "affine_geq", "affine_leq", "alldifferent", "count_eq", "element_iv", "element_liv", "element_lic",
    "exactly_eq", "exactly_true", "gcc", "lexicographic_leq", "max_eq", "max_leq", "min_eq", "min_geq", "relation",
]
ENTAIL_ALGS = [
    "affine_geq", "affine_leq", "count_eq", "element_iv", "element_lic", "element_liv", "exactly_eq",
    "exactly_true", "lexicographic_leq", "max_leq", "min_geq", "relation",
]


def intervals(lo, hi):
    return [(a, b) for a in range(lo, hi + 1) for b in range(a, hi + 1)]


def boxes(n, lo, hi):
    return itertools.product(intervals(lo, hi), repeat=n)


def gcc_params(v0, m, cap=2, zero_caps=False):
    for l in itertools.product(range(0, cap + 1), repeat=m):
        for u in itertools.product(range(0 if zero_caps else 1, cap + 1), repeat=m):
            if all(a <= b for a, b in zip(l, u)):
                yield [v0] + list(l) + list(u)


def prop_scope(alg):
    """generator of (params, box) over the exhaustive small scope of `alg`"""
    if alg == "and":
        for n in (1, 2, 3, 4):
            for b in boxes(n, 0, 1):
                yield [], list(b)
    elif alg == "exactly_true":
        for n in (1, 2, 3, 4):
            for c in range(0, n + 1):
                for b in boxes(n, 0, 1):
                    yield [c], list(b)
    elif alg in ("affine_eq", "affine_geq", "affine_leq"):
        for n in (1, 2):
            for cs in itertools.product(range(-2, 3), repeat=n):
                for a in range(-4, 6):
                    for b in boxes(n, -1, 2):
                        yield list(cs) + [a], list(b)
        for cs in itertools.product((-2, -1, 0, 1, 3), repeat=3):
            for a in (-3, 0, 2, 5):
                for b in boxes(3, 0, 2):
                    yield list(cs) + [a], list(b)
    elif alg == "count_eq":
        for n in (1, 2, 3):
            for a in (0, 1, 2):
                for xs in boxes(n, 0, 2):
                    for k in intervals(-1, n + 1):
                        yield [a], list(xs) + [k]
    elif alg == "exactly_eq":
        for n in (1, 2, 3, 4):
            for a in (0, 1, 3):
                for c in range(0, n + 1):
                    for b in boxes(n, 0, 2):
                        yield [a, c], list(b)
    elif alg == "element_iv":
        for m in (1, 2, 3):
            for l in itertools.product((0, 1, 2), repeat=m):
                for i in intervals(-1, m):
                    for v in intervals(0, 3):
                        yield list(l), [i, v]
    elif alg == "element_lic":
        for m in (1, 2, 3):
            for c in (0, 1, 3):
                for l in boxes(m, 0, 2):
                    for i in intervals(-1, m):
                        yield [c], list(l) + [i]
    elif alg == "element_liv":
        for m in (1, 2):
            for l in boxes(m, 0, 2):
                for i in intervals(-1, m):
                    for v in intervals(0, 3):
                        yield [], list(l) + [i, v]
        for l in boxes(3, 0, 1):
            for i in intervals(0, 2):
                for v in intervals(0, 1):
                    yield [], list(l) + [i, v]
    elif alg in ("max_eq", "max_leq", "min_eq", "min_geq"):
        for n in (2, 3, 4):
            for b in boxes(n, 0, 3 if n < 4 else 2):
                yield [], list(b)
    elif alg == "relation":
        for n in (1, 2):
            vals = list(itertools.product((0, 1, 2), repeat=n))
            for k in (1, 2, 3):
                for rows in itertools.product(vals, repeat=k):
                    if n == 2 and k == 3 and rows[0] > rows[1]:
                        continue
                    for b in boxes(n, 0, 2):
                        yield [x for r in rows for x in r], list(b)
    elif alg == "lexicographic_leq":
        for n in (1, 2):
            for b in boxes(2 * n, 0, 2):
                yield [], list(b)
        for b in boxes(8, 0, 1):  # four pairs: every path through the five-state automaton of the propagator needs >= 4 positions
            yield [], list(b)
        for b in boxes(3, 0, 2):  # odd arity: the last variable is ignored (the shipped Schur model does this)
            yield [], list(b)
        for b in boxes(5, 0, 1):
            yield [], list(b)
        for b in boxes(6, 0, 1):
            yield [], list(b)
    elif alg in ("no_sub_cycle", "scc"):
        for n in (1, 2, 3, 4):
            for b in boxes(n, 0, n - 1):
                yield [], list(b)
    elif alg == "alldifferent":
        for n in (1, 2, 3, 4):
            for b in boxes(n, 0, 3 if n < 4 else 3):
                yield [], list(b)
    elif alg == "gcc":
        for n in (1, 2, 3):
            for m in (1, 2, 3):
                for v0 in (0, 2):
                    for ps in gcc_params(v0, m):
                        for b in boxes(n, v0, v0 + m - 1):
                            yield ps, list(b)
    elif alg == "dummy":
        for n in (1, 2):
            for b in boxes(n, -1, 1):
                yield [], list(b)
    else:
        raise KeyError(alg)


def rbox(rng, n, lo, hi, maxw):
    out = []
    for _ in range(n):
        a = rng.randint(lo, hi)
        out.append((a, min(hi, a + rng.randint(0, maxw))))
    return out


PTS = [0, 1, 255, 256, 32767, 32768, 65535, 65536, 65537, 70000, 131072, 1000000, 4000000]
WIDTHS = [0, 0, 1, 2, 3, 255, 256, 65535, 65536, 65537, 70000, 200000]


def wbox(rng, n, nonneg=False):
    """domains of large magnitude / width around the powers of two where a narrower integer type would wrap"""
    out = []
    for _ in range(n):
        a = rng.choice(PTS) + rng.randint(-2, 2)
        if not nonneg and rng.random() < 0.3:
            a = -a
        if nonneg:
            a = max(0, a)
        out.append((a, a + rng.choice(WIDTHS)))
    return out


def prop_wide(alg, rng):
    """an in-contract case with values far from zero and wide domains (still within NoOverflow: every linear sum stays
    below 2^31); None for the algorithms whose contract ties the values to small ranges"""
    if alg in ("affine_eq", "affine_geq", "affine_leq"):
        n = rng.randint(1, 5)
        cs = [rng.choice([-7, -3, -2, -1, 0, 1, 1, 2, 3, 5]) for _ in range(n)]
        b = wbox(rng, n)
        mid = sum(c * rng.randint(lo, hi) for c, (lo, hi) in zip(cs, b))
        return cs + [mid + rng.choice([0, 0, 1, -1, 65536, -70000])], b
    if alg == "alldifferent":
        n = rng.randint(1, 6)
        b = wbox(rng, n)
        if rng.random() < 0.5:  # overlapping wide domains: shared anchors
            a = rng.choice(PTS)
            b = []
            for _ in range(n):
                lo = a + rng.randint(0, 2)
                b.append((lo, lo + rng.choice(WIDTHS)))
        return [], b
    if alg == "count_eq":
        n = rng.randint(1, 5)
        b = wbox(rng, n)
        return [b[0][0]], b + rbox(rng, 1, -1, n + 1, n + 1)
    if alg == "exactly_eq":
        n = rng.randint(1, 5)
        b = wbox(rng, n)
        return [b[0][0], rng.randint(0, n)], b
    if alg == "element_iv":
        m = rng.randint(1, 6)
        vals = [rng.choice(PTS) * rng.choice([1, -1]) for _ in range(m)]
        return vals, rbox(rng, 1, -2, m + 1, m + 2) + wbox(rng, 1)
    if alg == "element_lic":
        m = rng.randint(1, 5)
        b = wbox(rng, m)
        return [b[0][0] + rng.randint(0, 1)], b + rbox(rng, 1, -2, m + 1, m + 2)
    if alg == "element_liv":
        m = rng.randint(1, 5)
        b = wbox(rng, m)
        return [], b + rbox(rng, 1, -2, m + 1, m + 2) + [(b[0][0] - rng.randint(0, 2), b[0][1] + rng.randint(0, 70000))]
    if alg in ("max_eq", "max_leq", "min_eq", "min_geq"):
        n = rng.randint(2, 6)
        return [], wbox(rng, n)
    if alg == "lexicographic_leq":
        n = rng.randint(1, 4)
        return [], wbox(rng, 2 * n)
    if alg == "relation":
        n = rng.randint(1, 3)
        b = wbox(rng, n)
        rows = [[rng.randint(lo, min(hi, lo + 3)) for lo, hi in b] for _ in range(rng.randint(1, 4))]
        rows.append([lo - 1 for lo, hi in b])
        return [x for r in rows for x in r], b
    if alg == "dummy":
        return [], wbox(rng, rng.randint(1, 4))
    return None


def prop_random(alg, rng):
    """a wider random in-contract case"""
    if alg == "and":
        n = rng.randint(1, 8)
        return [], rbox(rng, n, 0, 1, 1)
    if alg == "exactly_true":
        n = rng.randint(1, 8)
        return [rng.randint(0, n)], rbox(rng, n, 0, 1, 1)
    if alg in ("affine_eq", "affine_geq", "affine_leq"):
        n = rng.randint(1, 6)
        cs = [rng.choice([-7, -3, -2, -1, 0, 0, 1, 2, 3, 5]) for _ in range(n)]
        b = rbox(rng, n, -6, 9, 6)
        mid = sum(c * rng.randint(lo, hi) for c, (lo, hi) in zip(cs, b))
        return cs + [mid + rng.randint(-4, 4)], b
    if alg == "count_eq":
        n = rng.randint(1, 7)
        return [rng.randint(-1, 3)], rbox(rng, n, -1, 3, 3) + rbox(rng, 1, -1, n + 1, n + 1)
    if alg == "exactly_eq":
        n = rng.randint(1, 7)
        return [rng.randint(-1, 3), rng.randint(0, n)], rbox(rng, n, -1, 3, 3)
    if alg == "element_iv":
        m = rng.randint(1, 7)
        return [rng.randint(-3, 4) for _ in range(m)], rbox(rng, 1, -2, m + 1, m + 2) + rbox(rng, 1, -4, 5, 5)
    if alg == "element_lic":
        m = rng.randint(1, 6)
        return [rng.randint(-2, 4)], rbox(rng, m, -2, 4, 4) + rbox(rng, 1, -2, m + 1, m + 2)
    if alg == "element_liv":
        m = rng.randint(1, 6)
        return [], rbox(rng, m, -2, 4, 4) + rbox(rng, 1, -2, m + 1, m + 2) + rbox(rng, 1, -3, 5, 5)
    if alg in ("max_eq", "max_leq", "min_eq", "min_geq"):
        n = rng.randint(2, 7)
        return [], rbox(rng, n, -4, 6, 5)
    if alg == "relation":
        n = rng.randint(1, 4)
        k = rng.randint(1, 6)
        rows = [[rng.randint(-2, 3) for _ in range(n)] for _ in range(k)]
        if rng.random() < 0.3:
            rows.append(list(rows[0]))
        return [x for r in rows for x in r], rbox(rng, n, -2, 3, 4)
    if alg == "lexicographic_leq":
        n = rng.randint(1, 6)
        if rng.random() < 0.6:
            # position by position, a RELATION between x_i and y_i is drawn (these relations are what the automaton of the
            # propagator branches on): fixed and equal, x.min = y.max with overlap, x.max = y.min with overlap, x below y,
            # x above y, overlapping freely
            xs, ys = [], []
            for _ in range(n):
                k = rng.choice(["eq", "eq", "xmin=ymax", "xmax=ymin", "below", "above", "free", "free"])
                a = rng.randint(0, 3)
                if k == "eq":
                    xs.append((a, a)); ys.append((a, a))
                elif k == "xmin=ymax":
                    xs.append((a, a + rng.randint(1, 2))); ys.append((a - rng.randint(0, 2), a))
                elif k == "xmax=ymin":
                    xs.append((a - rng.randint(0, 2), a)); ys.append((a, a + rng.randint(1, 2)))
                elif k == "below":
                    xs.append((a - rng.randint(0, 1), a)); ys.append((a + 1, a + 1 + rng.randint(0, 1)))
                elif k == "above":
                    xs.append((a + 1, a + 1 + rng.randint(0, 1))); ys.append((a - rng.randint(0, 1), a))
                else:
                    xs.append((a - rng.randint(0, 2), a + rng.randint(0, 2))); ys.append((a - rng.randint(0, 2), a + rng.randint(0, 2)))
            return [], xs + ys + ([(0, rng.randint(0, 2))] if rng.random() < 0.2 else [])
        return [], rbox(rng, 2 * n + (1 if rng.random() < 0.25 else 0), -1, 3, 2)
    if alg in ("no_sub_cycle", "scc"):
        n = rng.randint(1, 7)
        if rng.random() < 0.5:
            perm = list(range(n))
            rng.shuffle(perm)
            b = []
            for v in perm:
                if rng.random() < 0.6:
                    b.append((v, v))
                else:
                    a = rng.randint(0, v)
                    b.append((a, rng.randint(v, n - 1)))
            return [], b
        return [], rbox(rng, n, 0, n - 1, n - 1)
    if alg == "alldifferent":
        n = rng.randint(1, 8)
        return [], rbox(rng, n, -2, n + 1, 4)
    if alg == "gcc":
        n = rng.randint(1, 6)
        m = rng.randint(1, 5)
        v0 = rng.randint(-2, 2)
        l = [rng.randint(0, 2) for _ in range(m)]
        u = [max(1, x + rng.randint(0, 2)) for x in l]
        return [v0] + l + u, rbox(rng, n, v0, v0 + m - 1, m - 1)
    if alg == "dummy":
        n = rng.randint(1, 5)
        return [], rbox(rng, n, -5, 5, 5)
    raise KeyError(alg)
