"""
Independent evaluators of the DOCUMENTED relations (docs/source/reference.rst), used only to
search for a concrete failing input on the real code and to cross-check the Lean `rel`.
Nothing here looks at the implementation.
"""
import itertools


def has_short_cycle(t):
    """successor function t on {0..n-1}: is there a cycle visiting fewer than n vertices?"""
    n = len(t)
    for s in range(n):
        seen = []
        v = s
        while 0 <= v < n and v not in seen:
            seen.append(v)
            v = t[v]
        if 0 <= v < n and v == s and len(seen) < n:
            return True
    return False


def is_circuit(t):
    n = len(t)
    if sorted(t) != list(range(n)):
        return False
    v, k = 0, 0
    while True:
        v = t[v]
        k += 1
        if v == 0:
            return k == n
        if k > n:
            return False


def rel(alg, ps, t):
    """the documented relation of constraint `alg` with parameters `ps` on the tuple `t`"""
    n = len(t)
    if alg == "and":
        return (1 if all(x == 1 for x in t[:-1]) else 0) == t[-1]
    if alg == "affine_eq":
        return sum(c * x for c, x in zip(ps[:-1], t)) == ps[-1]
    if alg == "affine_geq":
        return sum(c * x for c, x in zip(ps[:-1], t)) >= ps[-1]
    if alg == "affine_leq":
        return sum(c * x for c, x in zip(ps[:-1], t)) <= ps[-1]
    if alg == "alldifferent":
        return len(set(t)) == n
    if alg == "count_eq":
        return sum(1 for x in t[:-1] if x == ps[0]) == t[-1]
    if alg == "dummy":
        return True
    if alg == "element_iv":
        i, v = t
        return 0 <= i < len(ps) and ps[i] == v
    if alg == "element_lic":
        i = t[-1]
        return 0 <= i < n - 1 and t[i] == ps[0]
    if alg == "element_liv":
        i, v = t[-2], t[-1]
        return 0 <= i < n - 2 and t[i] == v
    if alg == "exactly_eq":
        return sum(1 for x in t if x == ps[0]) == ps[1]
    if alg == "exactly_true":
        return sum(1 for x in t if x == 1) == ps[0]
    if alg == "gcc":
        m = (len(ps) - 1) // 2
        v0 = ps[0]
        for j in range(m):
            c = sum(1 for x in t if x == v0 + j)
            if not ps[1 + j] <= c <= ps[1 + m + j]:
                return False
        return all(v0 <= x < v0 + m for x in t)
    if alg == "lexicographic_leq":
        h = n // 2
        return list(t[:h]) <= list(t[h:])
    if alg == "max_eq":
        return max(t[:-1]) == t[-1]
    if alg == "max_leq":
        return max(t[:-1]) <= t[-1]
    if alg == "min_eq":
        return min(t[:-1]) == t[-1]
    if alg == "min_geq":
        return min(t[:-1]) >= t[-1]
    if alg == "no_sub_cycle":
        return not has_short_cycle(t)
    if alg == "relation":
        rows = [tuple(ps[k : k + n]) for k in range(0, len(ps), n)]
        return tuple(t) in rows
    if alg == "scc":
        return is_circuit(t)
    raise KeyError(alg)


def rel_weak(alg, ps, t):
    """what an accepted INSTANTIATED tuple is guaranteed to satisfy: the relation itself, except
    for no_sub_cycle which is decisive on permutations only (C06)"""
    if alg == "no_sub_cycle":
        return len(set(t)) != len(t) or not has_short_cycle(t)
    return rel(alg, ps, t)


def tuples(box):
    return itertools.product(*[range(a, b + 1) for a, b in box])


def hull(alg, ps, box):
    """bounds hull of the solutions in the box, None when there is none"""
    lo = hi = None
    for t in tuples(box):
        if rel(alg, ps, t):
            if lo is None:
                lo, hi = list(t), list(t)
            else:
                for k, x in enumerate(t):
                    if x < lo[k]:
                        lo[k] = x
                    if x > hi[k]:
                        hi[k] = x
    return None if lo is None else list(zip(lo, hi))


def box_size(box):
    s = 1
    for a, b in box:
        s *= max(0, b - a + 1)
    return s


def problem_solutions(prob, limit_size=200000):
    """all assignments of the shared domains (as variable-value lists) satisfying every constraint"""
    if box_size(prob.shr) > limit_size:
        return None
    out = []
    for sigma in tuples(prob.shr):
        vals = [sigma[i] + o for i, o in zip(prob.idx, prob.off)]
        if all(rel_weak(a, ps, [vals[v] for v in vs]) for vs, a, ps in prob.props):
            out.append(vals)
    return out


def problem_solutions_strong(prob, limit_size=200000):
    if box_size(prob.shr) > limit_size:
        return None
    out = []
    for sigma in tuples(prob.shr):
        vals = [sigma[i] + o for i, o in zip(prob.idx, prob.off)]
        if all(rel(a, ps, [vals[v] for v in vs]) for vs, a, ps in prob.props):
            out.append(vals)
    return out
