"""
Regression corpus: the concrete inputs on which the pinned tree (85726e3) violated a property.
Each case evaluates the property DIRECTLY on the real code against an independent expectation and
returns (ok, detail).  They are the replays of the `fixed:` entries of known_findings.json and run
first in every check of the property they belong to.  A watchdog subprocess is used where the
defect was a hang.
"""
import itertools
import json
import os
import subprocess
import sys

import numpy as np

REPO = os.environ.get("NUCS_REPO", "/repo")
if REPO not in sys.path:
    sys.path.insert(0, REPO)


def _dom(box):
    return np.array(box, dtype=np.int32)


def _par(p):
    return np.array(p, dtype=np.int32)


def _run(alg_name, box, params):
    import nucs.propagators.propagators as P

    fct = getattr(P, "compute_domains_" + alg_name)
    d = _dom(box)
    st = int(fct(d, _par(params)))
    return st, [tuple(int(v) for v in r) for r in d]


def case_affine_eq_ground():
    st, d = _run("affine_eq", [(0, 1), (0, 1)], [2, 2, 3])
    ok = st == 0
    return ok, f"affine_eq 2x+2y=3 on [0,1]^2 -> status {st} box {d} (no tuple satisfies it)"


def case_affine_zero_coeffs():
    bad = []
    for alg, params in (("affine_eq", [0, 0, 1]), ("affine_geq", [0, 0, 1]), ("affine_leq", [0, 0, -1])):
        st, d = _run(alg, [(0, 0), (1, 1)], params)
        if st != 0:
            bad.append((alg, params, st))
    return not bad, f"all-zero coefficients accepted: {bad}"


def case_max_eq_loses_solution():
    st, d = _run("max_eq", [(0, 5), (0, 3), (2, 5)], [])
    ok = st != 0 and d[0][0] <= 0
    st2, d2 = _run("min_eq", [(0, 5), (2, 5), (0, 3)], [])
    ok2 = st2 != 0 and d2[0][1] >= 5
    return ok and ok2, f"max_eq -> {st} {d} (tuple (0,3,3) must stay); min_eq -> {st2} {d2} (tuple (5,2,2) must stay)"


def _solve_sub(code, timeout=120, env=None):
    e = dict(os.environ)
    e["PYTHONPATH"] = REPO
    if env:
        e.update(env)
    try:
        r = subprocess.run([sys.executable, "-c", code], capture_output=True, text=True, timeout=timeout, env=e)
    except subprocess.TimeoutExpired:
        return None, "timeout"
    return r.returncode, (r.stdout.strip().splitlines() or [""])[-1] + ("" if r.returncode == 0 else " | " + r.stderr.strip()[-300:])


def bc_pass(problem, solver):
    """one propagation pass of the real engine on the solver's current state"""
    from nucs.solvers.bound_consistency_algorithm import bound_consistency_algorithm
    from nucs.solvers.backtrack_solver import get_function_addresses

    p, s = problem, solver
    addrs = get_function_addresses()[0]
    return int(
        bound_consistency_algorithm(
            s.statistics, p.algorithms, p.var_bounds, p.param_bounds, p.dom_indices_arr, p.dom_offsets_arr,
            p.props_dom_indices, p.props_dom_offsets, p.props_parameters, p.triggers, s.shr_domains_stack,
            s.not_entailed_propagators_stack, s.dom_update_stack, s.stacks_top, s.triggered_propagators,
            addrs, s.decision_domains,
        )
    )


def case_self_wake_skipped():
    from nucs.problems.problem import Problem
    from nucs.propagators.propagators import ALG_AFFINE_EQ
    from nucs.solvers.backtrack_solver import BacktrackSolver

    p = Problem([(2, 4), (0, 5)])
    p.add_propagator(([0, 1], ALG_AFFINE_EQ, [3, -2, 3]))
    s = BacktrackSolver(p, log_level="ERROR")
    st = bc_pass(p, s)
    d = s.shr_domains_stack[0].copy()
    st2, d2 = _run("affine_eq", [tuple(r) for r in d.tolist()], [3, -2, 3])
    ok = st != 0 and st2 != 0 and d2 == [tuple(r) for r in d.tolist()] and not s.triggered_propagators.any()
    return ok, f"3x-2y=3 on [2,4]x[0,5]: pass -> {st} {d.tolist()} queue {s.triggered_propagators.tolist()}; re-execution -> {st2} {d2}"


def case_two_no_sub_cycle_livelock():
    code = (
        "from nucs.problems.problem import Problem\n"
        "from nucs.propagators.propagators import ALG_NO_SUB_CYCLE, ALG_ALLDIFFERENT\n"
        "from nucs.solvers.backtrack_solver import BacktrackSolver\n"
        "p=Problem([(1,3),(0,3),(0,3),(0,2)])\n"
        "p.add_propagator(([0,1,2,3],ALG_ALLDIFFERENT,[]))\n"
        "p.add_propagator(([0,1,2,3],ALG_NO_SUB_CYCLE,[])); p.add_propagator(([0,1,2,3],ALG_NO_SUB_CYCLE,[]))\n"
        "print(len(BacktrackSolver(p).find_all()))\n"
    )
    rc, out = _solve_sub(code, timeout=60)
    return rc == 0 and out == "6", f"circuit(4) with no_sub_cycle posted twice -> {out}"


def case_duplicate_shared_domain():
    code = (
        "from nucs.problems.problem import Problem\n"
        "from nucs.propagators.propagators import ALG_MAX_LEQ\n"
        "from nucs.solvers.backtrack_solver import BacktrackSolver\n"
        "p=Problem([(0,3)],[0,0,0],[0,-2,-1]); p.add_propagator(([0,2],ALG_MAX_LEQ,[]))\n"
        "print([list(map(int,s)) for s in BacktrackSolver(p).find_all()])\n"
    )
    rc, out = _solve_sub(code, timeout=60)
    return rc == 0 and json.loads(out) == [], f"x0<=x0-1 (one shared domain twice in max_leq) -> {out}"


def case_split_low_ground():
    code = (
        "from nucs.problems.problem import Problem\n"
        "from nucs.propagators.propagators import ALG_NO_SUB_CYCLE\n"
        "from nucs.solvers.backtrack_solver import BacktrackSolver\n"
        "from nucs.heuristics.heuristics import DOM_HEURISTIC_SPLIT_LOW, DOM_HEURISTIC_MIN_VALUE\n"
        "r=[]\n"
        "for hi in (1,2):\n"
        "  for h in (DOM_HEURISTIC_MIN_VALUE, DOM_HEURISTIC_SPLIT_LOW):\n"
        "    p=Problem([(0,hi)]*3); p.add_propagator(([0,1,2],ALG_NO_SUB_CYCLE,[]))\n"
        "    r.append(len(BacktrackSolver(p,dom_heuristic_idx=h).find_all()))\n"
        "print(r)\n"
    )
    rc, out = _solve_sub(code, timeout=60)
    # brute force: a successor function on 3 vertices without a cycle shorter than 3 is a 3-cycle:
    # none with values in {0,1}, two with values in {0,1,2}
    # and the propagator itself accepts four ground tuples of {0,1,2}^3 (it is decisive on permutations only)
    ok = False
    if rc == 0:
        r = json.loads(out)
        ok = r[0] == 0 and r[1] == 0 and 2 <= r[2] <= 4 and 2 <= r[3] <= 4
    return ok, f"no_sub_cycle alone on [0,1]^3 and [0,2]^3, min_value vs split_low -> {out} (expected [0, 0, 2..4, 2..4])"


def case_optimize_unwatched_objective():
    code = (
        "from nucs.problems.problem import Problem\n"
        "from nucs.solvers.backtrack_solver import BacktrackSolver\n"
        "p=Problem([(0,3),(0,3)])\n"
        "s=BacktrackSolver(p).minimize(1); print(None if s is None else int(s[1]))\n"
        "p=Problem([(0,3),(0,3)])\n"
        "s=BacktrackSolver(p).maximize(0); print(None if s is None else int(s[0]))\n"
    )
    rc, out = _solve_sub(code, timeout=60)
    return rc == 0 and out == "3", f"minimize/maximize a variable no constraint watches -> {out}"


def case_split_more_parts_than_values():
    code = (
        "from nucs.problems.problem import Problem\n"
        "from nucs.solvers.backtrack_solver import BacktrackSolver\n"
        "from nucs.examples.queens.queens_problem import QueensProblem\n"
        "p=Problem([(0,2),(0,1)]); parts=p.split(5,0)\n"
        "n=sum(len(BacktrackSolver(q).find_all()) for q in parts)\n"
        "q=QueensProblem(4); parts=q.split(2,5); m=sum(len(BacktrackSolver(x).find_all()) for x in parts)\n"
        "print(n,m)\n"
    )
    rc, out = _solve_sub(code, timeout=60)
    return rc == 0 and out == "6 2", f"split(5) of a 3-value domain; QueensProblem(4).split(2, var 5) -> {out}"


def case_max_regret_ties():
    code = (
        "from nucs.problems.problem import Problem\n"
        "from nucs.solvers.backtrack_solver import BacktrackSolver\n"
        "from nucs.heuristics.heuristics import VAR_HEURISTIC_MAX_REGRET\n"
        "p=Problem([(0,1),(0,1)])\n"
        "s=BacktrackSolver(p,var_heuristic_idx=VAR_HEURISTIC_MAX_REGRET,var_heuristic_params=[[1,1],[1,1]])\n"
        "print(len(s.find_all()))\n"
    )
    rc, out = _solve_sub(code, timeout=60, env={"NUMBA_DISABLE_JIT": "1"})
    return rc == 0 and out == "4", f"max_regret with tied costs (interpreted) -> {out}"


def case_no_sub_cycle_n2():
    st, d = _run("no_sub_cycle", [(0, 0), (1, 1)], [])
    return st == 0, f"no_sub_cycle on the identity of size 2 -> status {st}"


def case_stack_pointer_wrap():
    code = (
        "from nucs.problems.problem import Problem\n"
        "from nucs.solvers.backtrack_solver import BacktrackSolver\n"
        "p=Problem([(0,1)]*300)\n"
        "try:\n"
        "    s=next(iter(BacktrackSolver(p,stack_max_height=512).solve())); print(int(sum(s)))\n"
        "except (ValueError, IndexError, OverflowError) as e: print('raised')\n"
    )
    rc, out = _solve_sub(code, timeout=120)
    ok = rc == 0 and out in ("0", "raised")
    code2 = (
        "from nucs.problems.problem import Problem\n"
        "from nucs.solvers.backtrack_solver import BacktrackSolver\n"
        "p=Problem([(0,1)]*12)\n"
        "try:\n"
        "    n=len(BacktrackSolver(p,stack_max_height=6).find_all()); print(n)\n"
        "except (ValueError, IndexError, OverflowError) as e: print('raised')\n"
    )
    rc2, out2 = _solve_sub(code2, timeout=120)
    ok2 = rc2 == 0 and out2 in ("4096", "raised")
    return ok and ok2, f"300 booleans, height 512 -> {out}; depth 12 with height 6 -> {out2} (rc {rc2})"


def case_index_width():
    code = (
        "from nucs.problems.problem import Problem\n"
        "from nucs.propagators.propagators import ALG_DUMMY, ALG_AFFINE_LEQ\n"
        "from nucs.solvers.backtrack_solver import BacktrackSolver\n"
        "p=Problem([(0,0)]*4)\n"
        "for k in range(16385): p.add_propagator(([0,1,2,3],ALG_DUMMY,[]))\n"
        "p.add_propagator(([0,1],ALG_AFFINE_LEQ,[1,1,-1]))\n"
        "try:\n"
        "    print(len(BacktrackSolver(p).find_all()))\n"
        "except (ValueError, IndexError, OverflowError) as e: print('raised')\n"
    )
    rc, out = _solve_sub(code, timeout=300)
    return rc == 0 and out in ("0", "raised"), f"65 542 constraint positions (uint16 bounds) with an infeasible x0+x1<=-1 -> {out}"


def case_worker_death():
    code = (
        "import os, sys, threading\n"
        "from nucs.problems.problem import Problem\n"
        "from nucs.solvers.backtrack_solver import BacktrackSolver\n"
        "from nucs.solvers.multiprocessing_solver import MultiprocessingSolver\n"
        "class Dying(BacktrackSolver):\n"
        "    def solve_and_queue(self, i, q):\n"
        "        os._exit(3)\n"
        "p=Problem([(0,1),(0,1)])\n"
        "s=MultiprocessingSolver([BacktrackSolver(p), Dying(Problem([(0,1),(0,1)]))])\n"
        "def watchdog():\n"
        "    print('hang'); sys.stdout.flush(); os._exit(0)\n"
        "t=threading.Timer(20, watchdog); t.daemon=True; t.start()\n"
        "try:\n"
        "    n=len(list(s.solve())); print('returned', n)\n"
        "except Exception as e: print('raised')\n"
        "os._exit(0)\n"
    )
    rc, out = _solve_sub(code, timeout=120, env={"NUMBA_DISABLE_JIT": "1"})
    return rc == 0 and out in ("raised", "returned 4"), f"worker exits before its marker -> {out}"


def case_add_variable_shared_domains():
    """x in [0,2], y = x+1 a view of the same shared domain, z in [0,1]; y + z <= 2.  Written through the constructor and written
    with add_variable / add_variables the model must have the same three solutions (the pinned tree counted variables instead of
    shared domains in add_variable: the solver could not even be built)."""
    from nucs.problems.problem import Problem
    from nucs.propagators.propagators import ALG_AFFINE_LEQ
    from nucs.solvers.backtrack_solver import BacktrackSolver

    def sols(p):
        p.add_propagator(([1, 2], ALG_AFFINE_LEQ, [1, 1, 2]))
        return sorted(tuple(int(v) for v in x) for x in BacktrackSolver(p, log_level="ERROR").solve())

    a = sols(Problem([(0, 2), (0, 1)], [0, 0, 1], [0, 1, 0]))
    p1 = Problem([(0, 2)], [0, 0], [0, 1])
    p1.add_variable((0, 1))
    b = sols(p1)
    p2 = Problem([(0, 2)], [0, 0], [0, 1])
    p2.add_variables([(0, 1)])
    c = sols(p2)
    exp = [(0, 1, 0), (0, 1, 1), (1, 2, 0)]
    return a == exp and b == exp and c == exp, f"constructor {a}, add_variable {b}, add_variables {c}"


def case_golomb_own_consistency_enumeration():
    """GolombProblem(5, True): the solution set under the model's own consistency algorithm must be the set under plain bound
    consistency (the pinned tree: 143956 against 114358 — the algorithm lowered lower bounds it should only raise).  Checked on the
    symmetry-breaking constraint on the first 25000 vectors (the pinned tree violates it from the 17832nd on), to stay within seconds."""
    from nucs.examples.golomb.golomb_problem import GolombProblem, golomb_consistency_algorithm, index
    from nucs.solvers.backtrack_solver import BacktrackSolver
    from nucs.solvers.consistency_algorithms import register_consistency_algorithm

    g = register_consistency_algorithm(golomb_consistency_algorithm)
    marks = 5
    p = GolombProblem(marks, True)
    bad = 0
    n = 0
    for s in BacktrackSolver(p, consistency_alg_idx=g, log_level="ERROR").solve():
        n += 1
        if not int(s[index(marks, 0, 1)]) < int(s[index(marks, marks - 2, marks - 1)]):
            bad += 1
        if n >= 25000:
            break
    return bad == 0, f"{bad} of the first {n} vectors violate the symmetry-breaking constraint"


def case_golomb_two_marks_symmetry_breaking():
    """GolombProblem(n, True) must stay satisfiable with the optimum of GolombProblem(n, False) for n = 2, 3, 4 (the pinned tree posts
    d(0,1) < d(n-2,n-1) also for n = 2, where both are the same variable: the ruler (0, 1) was lost)"""
    from nucs.examples.golomb.golomb_problem import GolombProblem
    from nucs.solvers.backtrack_solver import BacktrackSolver

    got = []
    for n in (2, 3, 4):
        opt = []
        for sb in (False, True):
            p = GolombProblem(n, sb)
            s = BacktrackSolver(p, log_level="ERROR").minimize(p.length_idx)
            opt.append(None if s is None else int(s[p.length_idx]))
        got.append(opt)
    return got == [[1, 1], [3, 3], [6, 6]], f"optimal lengths [without, with] symmetry breaking for 2, 3, 4 marks: {got}"


def case_golomb_own_consistency_loses_rulers():
    """The Golomb model's own consistency algorithm runs BEFORE bound consistency at every node and took the lower bound of every
    distance variable of the first rows for a USED distance, also of variables that are not instantiated yet (the pinned tree:
    marks 0, 6, 9, 13 given, length <= 25, symmetry breaking: plain bound consistency enumerates the rulers (0,6,9,13,14,24) and
    (0,6,9,13,14,25), the model's own algorithm none — d(1,2) is still [1, ..] when it runs, so 1 counts as used and d(3,4) = 1
    is pruned).  The solution sets under both algorithms must be equal."""
    from nucs.examples.golomb.golomb_problem import GolombProblem, golomb_consistency_algorithm, index
    from nucs.solvers.backtrack_solver import BacktrackSolver
    from nucs.solvers.consistency_algorithms import register_consistency_algorithm

    g = register_consistency_algorithm(golomb_consistency_algorithm)
    out = []
    for n, marks, cap in ((6, [0, 6, 9, 13], 25), (6, [0, 4, 6, 7], 23), (6, [0, 4], 31)):
        sets = []
        for alg in (0, g):
            p = GolombProblem(n, True)
            for j in range(1, len(marks)):
                p.shr_domains_lst[index(n, 0, j)] = [marks[j], marks[j]]
            lo, hi = p.shr_domains_lst[index(n, 0, n - 1)]
            p.shr_domains_lst[index(n, 0, n - 1)] = [lo, min(hi, cap)]
            sets.append(sorted(tuple(int(x) for x in s[: n - 1]) for s in BacktrackSolver(p, consistency_alg_idx=alg, log_level="ERROR").solve()))
        out.append((len(sets[0]), len(sets[1]), sets[0] == sets[1]))
    return all(o[2] for o in out) and out[0][0] == 2, f"(rulers under bound consistency, under the own algorithm, equal): {out}"


CASES = {
    "affine_eq_ground": (case_affine_eq_ground, ["C06", "C01"]),
    "affine_zero_coeffs": (case_affine_zero_coeffs, ["C06"]),
    "max_eq_loses_solution": (case_max_eq_loses_solution, ["C05", "C14"]),
    "self_wake_skipped": (case_self_wake_skipped, ["C08", "C01"]),
    "two_no_sub_cycle_livelock": (case_two_no_sub_cycle_livelock, ["C04", "C17"]),
    "duplicate_shared_domain": (case_duplicate_shared_domain, ["C01", "C02", "C08", "C13"]),
    "split_low_ground": (case_split_low_ground, ["C09", "C02"]),
    "optimize_unwatched_objective": (case_optimize_unwatched_objective, ["C03", "C04"]),
    "split_more_parts_than_values": (case_split_more_parts_than_values, ["C12", "C11"]),
    "max_regret_ties": (case_max_regret_ties, ["C04", "C16"]),
    "no_sub_cycle_n2": (case_no_sub_cycle_n2, ["C06"]),
    "stack_pointer_wrap": (case_stack_pointer_wrap, ["C19"]),
    "index_width": (case_index_width, ["C19"]),
    "worker_death": (case_worker_death, ["C18"]),
    "add_variable_shared_domains": (case_add_variable_shared_domains, ["C13", "C01"]),
    "golomb_own_consistency_enumeration": (case_golomb_own_consistency_enumeration, ["C20"]),
    "golomb_two_marks_symmetry_breaking": (case_golomb_two_marks_symmetry_breaking, ["C20"]),
    "golomb_own_consistency_loses_rulers": (case_golomb_own_consistency_loses_rulers, ["C20"]),
}


def run(names=None):
    out = {}
    for n, (f, props) in CASES.items():
        if names is not None and n not in names:
            continue
        try:
            import nv

            with nv.guard(120):  # interpreted mode only: a case that never returns is a failure of the case, within two minutes
                ok, detail = f()
        except Exception as e:  # an exception in the real code is a failure of the case, not of the harness
            ok, detail = False, f"exception {type(e).__name__}: {e}"
        out[n] = {"ok": bool(ok), "detail": detail, "properties": props}
    return out


if __name__ == "__main__":
    res = run(sys.argv[1:] or None)
    for n, r in res.items():
        print(("ok   " if r["ok"] else "FAIL ") + n + " :: " + r["detail"])
