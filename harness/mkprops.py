"""
Regenerates the per-algorithm parts of lean/NucsProofs/Properties/C05|C06|C07|C14.lean and the
local-contract part of C08 from the theorems that exist in lean/NucsProofs/Propagators/*.lean
(run by hand after proof files are added; the generated files are committed).
"""
import os
import re

VERIF = os.path.dirname(os.path.dirname(os.path.abspath(__file__)))
PD = os.path.join(VERIF, "lean", "NucsProofs", "Propagators")
ALGS = ["and", "affineEq", "affineGeq", "affineLeq", "alldifferent", "countEq", "dummy", "elementIv", "elementLiv",
        "elementLic", "exactlyEq", "exactlyTrue", "gcc", "lexLeq", "maxEq", "maxLeq", "minEq", "minGeq",
        "noSubCycle", "relation", "scc"]
ENTAIL = ["affineGeq", "affineLeq", "countEq", "elementIv", "elementLic", "elementLiv", "exactlyEq", "exactlyTrue",
          "lexLeq", "maxLeq", "minGeq", "relation"]
BC = ["and", "affineGeq", "affineLeq", "alldifferent", "countEq", "elementIv", "elementLiv", "elementLic", "exactlyEq",
      "exactlyTrue", "gcc", "lexLeq", "maxEq", "maxLeq", "minEq", "minGeq", "relation"]


# proof files whose authors have reported completion (in-progress files are not imported)
FINISHED = ["Affine", "AffineLeq", "Dummy", "Element", "MinMax", "Counting", "CountEq", "Lex", "Scc", "NoSubCycle", "AlldifferentReg", "GccReg", "ExactOfSupport", "SupportCertProofs", "AlldiffCorrectFinal", "GccPortSound", "GccExact", "GccLbcFinal", "GccCIsPort"]


def available():
    names, files = {}, []
    for f in sorted(os.listdir(PD)):
        if f.endswith(".lean") and f[:-5] in FINISHED:
            txt = open(os.path.join(PD, f)).read()
            found = re.findall(r"^theorem\s+([A-Za-z0-9_']+)", txt, flags=re.M)
            if found:
                files.append(f[:-5])
            for n in found:
                names[n] = f[:-5]
    return names, files


def header(files):
    return "".join(f"import NucsProofs.Propagators.{f}\n" for f in files)


def gen():
    names, files = available()
    out = {}
    imp = header(files)

    def block(prefix, contract, algs, doc, extra=""):
        body = [imp, f"/-!\n{doc}\n-/\nnamespace Nucs\n"]
        missing = []
        for a in algs:
            th = f"{prefix}_{a}"
            if th in names:
                body.append(f"theorem {contract[0]}_{a} : {contract[1]} .{a} := {th}")
            else:
                missing.append(a)
        body.append("")
        body.append(f"/-- algorithms for which `{contract[1]}` is stated (Spec.lean) but not proved here: validated by the\n    correspondence and the brute-force oracle only -/")
        body.append(f"def {contract[0]}_unproved : List Alg := [{', '.join('.' + m for m in missing)}]")
        body.append(extra)
        body.append("end Nucs\n")
        return "\n".join(body)

    c05_extra_port = ""
    if "gcc_port_sound" in names:
        c05_extra_port = '''
/-- soundness of the RAW ported gcc (nucs/propagators/gcc_propagator.py line by line), for EVERY number of values, when every
    upper capacity is at least 1: a failing call had no solution; a non-failing call returns a non-empty sub-box that keeps every
    solution (11 kLoC: NucsProofs/Propagators/GccSound*.lean, GccExist*.lean).  `C05_gcc` above is about the registered model
    (the port behind a result checker, which rejects when there are more than 12 values). -/
theorem C05_gcc_port (ps : List Int) (B : Box) (hc : Contract .gcc ps B) (hB : B.Nonempty)
    (hu : ∀ j, j < (ps.length - 1) / 2 → 1 ≤ getI ps (1 + (ps.length - 1) / 2 + j))
    (st : Status) (B' : Box) (h : gcc ps B = .ok (st, B')) :
    (st ≠ .inc → Box.le B' B ∧ B'.Nonempty ∧ ∀ t, inBox t B → rel .gcc ps t → inBox t B') ∧
    (st = .inc → ∀ t, inBox t B → ¬ rel .gcc ps t) := gcc_port_sound ps B hc hB hu st B' h
/-- … and it fails exactly when there is no solution (completeness of the failure detection) -/
theorem C05_gcc_port_feasible (ps : List Int) (B : Box) (hc : Contract .gcc ps B) (hB : B.Nonempty)
    (hu : ∀ j, j < (ps.length - 1) / 2 → 1 ≤ getI ps (1 + (ps.length - 1) / 2 + j))
    (st : Status) (B' : Box) (h : gcc ps B = .ok (st, B')) (hst : st ≠ .inc) :
    ∃ t, inBox t B ∧ rel .gcc ps t := gcc_port_feasible ps B hc hB hu st B' h hst
'''
    out["C05"] = block("sound", ("C05", "Sound"), ALGS,
        "  C05 — filtering never removes a value that takes part in a solution.\n\n"
        "  `Sound a` (Spec.lean): for every parameter vector and box within the documented contract, a\n"
        "  non-failing call returns a non-empty sub-box of the input that contains every tuple of the\n"
        "  input satisfying the documented relation, and a failing call had no such tuple.\n"
        "  One theorem per algorithm; unbounded in arity, domain bounds and parameters.",
        "\n/-- non-vacuity: a concrete in-contract, non-empty box on which the call prunes -/\n"
        "example : Contract .affineLeq [1, 1, -1, 0] [(2, 5), (2, 5), (0, 10)] ∧\n"
        "    Box.Nonempty [(2, 5), (2, 5), (0, 10)] ∧\n"
        "    runAlg .affineLeq [1, 1, -1, 0] [(2, 5), (2, 5), (0, 10)] = .ok (.cons, [(2, 5), (2, 5), (4, 10)]) := by\n"
        "  refine ⟨by simp [Contract], by simp [Box.Nonempty], by rfl⟩\n" + c05_extra_port)
    c06_extra = '''
/-- on an instantiated box the call fails iff the tuple violates the relation -/
theorem C06_point_iff (a : Alg) (hs : Sound a) (hg : GroundOk a) (hw : ∀ ps t, relW a ps t → rel a ps t)
    (ps : List Int) (t : List Int) (st : Status) (B' : Box)
    (hc : Contract a ps (pointBox t)) (hrun : runAlg a ps (pointBox t) = .ok (st, B')) :
    st = .inc ↔ ¬ rel a ps t := by
  have hne : (pointBox t).Nonempty := nonempty_of_inBox (inBox_pointBox_self t)
  have h := hs ps (pointBox t) st B' hc hne hrun
  constructor
  · intro hi; exact h.2 hi t (inBox_pointBox_self t)
  · intro hnr
    apply Classical.byContradiction
    intro hst
    have h1 := h.1 hst
    have hB' : B' = pointBox t := eq_pointBox_of_le h1.1 h1.2.1
    exact hnr (hw ps t (hg ps (pointBox t) st B' t hc hne hrun hst hB'))

/-- non-vacuity: 2x+2y=3 on the point (1,1) is rejected (the repaired affine_eq) -/
example : runAlg .affineEq [2, 2, 3] [(1, 1), (1, 1)] = .ok (.inc, [(1, 1), (1, 1)]) := by rfl
'''
    out["C06"] = block("groundOk", ("C06", "GroundOk"), ALGS,
        "  C06 — a fully instantiated tuple that violates a constraint is always rejected.\n\n"
        "  `GroundOk a`: whenever a call leaves all its variables instantiated without failing, that tuple\n"
        "  satisfies the relation (`relW`: the relation itself; for no_sub_cycle \"on permutations\").\n"
        "  With `Sound a`: on an instantiated box the call fails iff the tuple violates the relation\n"
        "  (`C06_point_iff`).", c06_extra)
    out["C07"] = block("entailOk", ("C07", "EntailOk"), ENTAIL,
        "  C07 — a constraint is declared entailed only when it can no longer be violated.\n\n"
        "  `EntailOk a`: a call answers `entailed` only if every tuple of the box it returns satisfies the\n"
        "  relation.  The history part (flags are copied on push, never written below the top, boxes only\n"
        "  shrink) is the `ent` field of the engine invariant `Inv` (NucsProofs/Engine/BcLoop.lean),\n"
        "  preserved by every propagation pass (`bcLoopG_inv`) and by push/backtrack (Engine/Search).",
        "\n/-- non-vacuity: an in-contract call that answers `entailed` -/\n"
        "example : runAlg .affineLeq [1, 1, 10] [(0, 5), (0, 5)] = .ok (.ent, [(0, 5), (0, 5)]) := by rfl\n")
    c14_extra = ""
    if "affineEq_oneRound" in names:
        c14_extra = '''
/-- affine_eq returns exactly the box obtained by ONE round of interval reasoning on the input bounds
    (it is documented as not bound-consistent; `not_exact_affineEq` shows it indeed is not) -/
theorem C14_affineEq_oneRound (cs : List Int) (a : Int) (B : Box) :
    (∀ i, i < cs.length → i < B.length → getI cs i ≠ 0 → ∀ v,
      inDom v (getDom (eqRound cs a B) i) ↔
        inDom v (getDom B i) ∧ a - sumMaxExc cs B i ≤ getI cs i * v ∧
          getI cs i * v ≤ a - sumMinExc cs B i) ∧
    (∀ i, (cs.length ≤ i ∨ getI cs i = 0) → getDom (eqRound cs a B) i = getDom B i) ∧
    (eqRound cs a B).length = B.length ∧
    ((affineEqCore cs a B).1 = .inc ↔ eqFails cs a B) ∧
    ((affineEqCore cs a B).1 ≠ .inc → affineEqCore cs a B = (.cons, eqRound cs a B)) ∧
    ((affineEqCore cs a B).1 = .inc → (affineEqCore cs a B).2 = B) := affineEq_oneRound cs a B
theorem C14_affineEq_not_exact : ¬ Exact .affineEq := not_exact_affineEq
'''
    if "alldifferentC_is_port" in names:
        c14_extra += '''
/-- the registered model of alldifferent (the port behind a result checker) IS the ported Python algorithm: on every
    non-empty box of non-empty domains the checker accepts the port's answer and the fallback is never used; hence
    `C05/C06/C14_alldifferent` are theorems about the line-by-line port of nucs/propagators/alldifferent_propagator.py -/
theorem C14_alldifferent_is_port (ps : List Int) (B : Box) (hne : B ≠ []) (hdom : ∀ d ∈ B, d.1 ≤ d.2) :
    ∃ st B', alldifferent ps B = .ok (st, B') ∧
      alldifferentC ps B = .ok (st, if st = .inc then B else B') := alldifferentC_is_port ps B hne hdom
/-- a non-failing answer of the port satisfies Hall's condition and is pruned with respect to every Hall interval -/
theorem C14_alldifferent_hall (ps : List Int) (B : Box) (hne : B ≠ []) (hdom : ∀ d ∈ B, d.1 ≤ d.2)
    (B' : Box) (h : alldifferent ps B = .ok (.cons, B')) : HallOK B' ∧ HallPruned B' := port_hall_pruned ps B hne hdom B' h
'''
    if "gcc_port_exact" in names:
        c14_extra += '''
/-- gcc, RAW PORT of nucs/propagators/gcc_propagator.py (line by line), every number of values, every upper capacity ≥ 1:
    exactness — every bound of a non-failing answer is attained by a solution inside the answer, and a second call changes
    nothing.  20 kLoC: soundness (GccSound*), existence of assignments with lower and upper capacities over interval domains
    (GccExist*: Hall's theorem by capacity expansion + Quimper et al.'s combination of a lower and an upper support),
    completeness of the two upper-capacity passes (as for alldifferent) and of the two lower-capacity passes (GccLbc*:
    freeability by alternating chains for stable variables, Hall intervals of the contracted instance for the others).
    `C14_gcc` is absent from the list above only because `runAlg .gcc` is the port behind a result checker (sound also for a
    zero capacity, where the CODE misbehaves: known finding K1) and `Exact` quantifies over the whole contract. -/
theorem C14_gcc_port_exact (ps : List Int) (B : Box) (hc : Contract .gcc ps B) (hB : B.Nonempty)
    (hu : ∀ j, j < (ps.length - 1) / 2 → 1 ≤ getI ps (1 + (ps.length - 1) / 2 + j))
    (st : Status) (B' : Box) (h : gcc ps B = .ok (st, B')) (hst : st ≠ .inc) :
    (∀ k, k < B'.length →
      (∃ t, inBox t B' ∧ rel .gcc ps t ∧ getI t k = (getDom B' k).1) ∧
      (∃ t, inBox t B' ∧ rel .gcc ps t ∧ getI t k = (getDom B' k).2)) ∧
    (∃ st', gcc ps B' = .ok (st', B') ∧ st' ≠ .inc) := gcc_port_exact ps B hc hB hu st B' h hst
theorem C14_gcc_port_idempotent (ps : List Int) (B : Box) (hc : Contract .gcc ps B) (hB : B.Nonempty)
    (hu : ∀ j, j < (ps.length - 1) / 2 → 1 ≤ getI ps (1 + (ps.length - 1) / 2 + j))
    (st : Status) (B' : Box) (h : gcc ps B = .ok (st, B')) (hst : st ≠ .inc) : gcc ps B' = .ok (.cons, B') :=
  gcc_port_idempotent ps B hc hB hu st B' h hst
'''
    if "gccC_is_port" in names:
        c14_extra += '''
/-- the registered model of gcc (the port behind an exponential result checker) IS the ported Python algorithm whenever there are
    at most 12 values and every upper capacity is at least 1: the checker accepts every answer of the port (the hard direction of
    Hoffman's condition, `gcc_feasible_of_not_infeasible`) and the fallback is never used; so on these inputs `C05/C06_gcc` and the
    engine theorems, which are about `runAlg .gcc`, are about the line-by-line port of nucs/propagators/gcc_propagator.py -/
theorem C14_gcc_is_port (ps : List Int) (B : Box) (hc : Contract .gcc ps B) (hB : B.Nonempty)
    (hu : ∀ j, j < (ps.length - 1) / 2 → 1 ≤ getI ps (1 + (ps.length - 1) / 2 + j)) (hm : gccM ps ≤ 12) :
    ∃ st B', gcc ps B = .ok (st, B') ∧ gccC ps B = .ok (st, if st = .inc then B else B') := gccC_is_port ps B hc hB hu hm
'''
    out["C14"] = block("exact", ("C14", "Exact"), BC,
        "  C14 — bound-consistent propagators compute exactly the bounds hull of the solutions.\n\n"
        "  `Exact a`: after a non-failing call every bound of the returned box is attained by a solution\n"
        "  inside it, and a second call returns the same box without failing.  With `Sound a` (C05): the\n"
        "  result IS the bounds hull of the solutions of the input box, and the call fails exactly when\n"
        "  there is no solution.", c14_extra)
    # C08 local part
    body = [imp, "import NucsProofs.Engine.BcLoop\n", "/-!\n  C08 (d) — the wake-up events each constraint declares are sufficient (`TrigOk`, Spec.lean).\n"
            "  Generated list; the engine part of C08 is in NucsProofs/Properties/C08.lean.\n-/\nnamespace Nucs\n"]
    missing = []
    for a in ALGS:
        if a == "noSubCycle":
            if "trigOkP_noSubCycle" in names:
                body.append("theorem C08_trig_noSubCycle_partial : TrigOkP .noSubCycle := trigOkP_noSubCycle")
                if "not_trigOkW_noSubCycle" in names:
                    body.append("/-- the full statement is FALSE for the code (known finding K3) -/\ntheorem C08_trig_noSubCycle_full_is_false : ¬ TrigOkW .noSubCycle := not_trigOkW_noSubCycle")
            else:
                missing.append(a)
        elif f"trigOk_{a}" in names:
            body.append(f"theorem C08_trig_{a} : TrigOk .{a} := trigOk_{a}")
        else:
            missing.append(a)
    body.append(f"\ndef C08_trig_unproved : List Alg := [{', '.join('.' + m for m in missing)}]\n")
    # LocalOk instances for every algorithm with all five ingredients
    locs = []
    for a in ALGS:
        need = [f"sound_{a}", f"groundOk_{a}", f"entailOk_{a}", f"contractMono_{a}"]
        trig = "trigOkP_noSubCycle" if a == "noSubCycle" else f"trigOk_{a}"
        if all(n in names for n in need) and trig in names:
            tg = "TrigG_of_TrigOkP trigOkP_noSubCycle" if a == "noSubCycle" else f"TrigG_of_TrigOk (by decide) trigOk_{a}"
            body.append(f"theorem localOk_{a} : LocalOk .{a} := ⟨sound_{a}, groundOk_{a}, entailOk_{a}, {tg}, contractMono_{a}⟩")
            locs.append(a)
    body.append(f"\n/-- the algorithms whose five local contracts are all proved -/\ndef provenAlgs : List Alg := [{', '.join('.' + a for a in locs)}]\n")
    body.append("theorem localOk_of_proven (a : Alg) (h : a ∈ provenAlgs) : LocalOk a := by\n  simp only [provenAlgs, List.mem_cons, List.mem_nil_iff, or_false] at h\n  rcases h with " + " | ".join(["rfl"] * len(locs)) + "\n" + "\n".join(f"  · exact localOk_{a}" for a in locs) + "\n")
    body.append("end Nucs\n")
    out["C08Local"] = "\n".join(body)
    for k, v in out.items():
        d = os.path.join(VERIF, "lean", "NucsProofs", "Properties" if k != "C08Local" else "Engine")
        with open(os.path.join(d, k + ".lean"), "w") as f:
            f.write(v)
    print("generated; proof files:", files)


if __name__ == "__main__":
    gen()
