"""compile the engine once in JIT mode into the cache directory keyed by the tree hash"""
import fcntl
import os
import sys
import time

sys.path.insert(0, os.path.dirname(os.path.abspath(__file__)))
import nv


def warm():
    th = nv.setup_env(jit=True)
    os.makedirs(os.path.join(nv.VERIF, ".cache"), exist_ok=True)
    with open(os.path.join(nv.VERIF, ".cache", "warm.lock"), "w") as lock:
        fcntl.flock(lock, fcntl.LOCK_EX)
        t = time.time()
        p = nv.Prob([(0, 2), (0, 2)], props=[([0, 1], "affine_leq", [1, 1, 2]), ([0, 1], "alldifferent", [])])
        for cons in (0, 1):
            for d in range(5):
                c = nv.Cfg(cons=cons, domh=d, varh=d % 4, dom_costs=[[1, 2, 3], [1, 2, 3]], var_costs=[[1, 2, 3], [1, 2, 3]])
                nv.impl_solve(p, c)
        nv.impl_optimize(p, nv.Cfg(), 0, True)
        print(f"numba cache {th} warm in {time.time()-t:.1f}s")


if __name__ == "__main__":
    warm()
