"""
Independent (Python) feasibility test for alldifferent / gcc over interval domains, by maximum flow with lower
bounds.  Used by the C14 certificate sweep on boxes that are too large for the brute-force oracle: when the Lean
support certificate of a result box is not found, this decides whether a bound really has no support (a concrete
violation of exactness) or the certificate search gave up (no alarm; counted in the evidence).
"""
from collections import deque


def _maxflow(n, edges, s, t):
    """Edmonds-Karp on a small graph; edges = list of [u, v, cap]; returns the flow value"""
    adj = [[] for _ in range(n)]
    cap = []
    for u, v, c in edges:
        adj[u].append(len(cap))
        cap.append([v, c])
        adj[v].append(len(cap))
        cap.append([u, 0])
    flow = 0
    while True:
        prev = [-1] * n
        prev_e = [-1] * n
        prev[s] = s
        dq = deque([s])
        while dq and prev[t] < 0:
            u = dq.popleft()
            for e in adj[u]:
                v, c = cap[e]
                if c > 0 and prev[v] < 0:
                    prev[v] = u
                    prev_e[v] = e
                    dq.append(v)
        if prev[t] < 0:
            return flow
        # bottleneck
        b = None
        v = t
        while v != s:
            e = prev_e[v]
            b = cap[e][1] if b is None else min(b, cap[e][1])
            v = prev[v]
        v = t
        while v != s:
            e = prev_e[v]
            cap[e][1] -= b
            cap[e ^ 1][1] += b
            v = prev[v]
        flow += b


def gcc_feasible(v0, lows, ups, box):
    """is there a tuple in `box` in which value v0+j is taken between lows[j] and ups[j] times and no other value occurs"""
    m, n = len(lows), len(box)
    for lo, hi in box:
        if lo > hi or hi < v0 or lo > v0 + m - 1:
            return False
    if any(l > u for l, u in zip(lows, ups)):
        return False
    # nodes: S, T, vars, values, SS, TT (lower bounds by the standard reduction)
    S, T = 0, 1
    var = lambda i: 2 + i
    val = lambda j: 2 + n + j
    SS, TT = 2 + n + m, 3 + n + m
    edges = []
    for i, (lo, hi) in enumerate(box):
        edges.append([S, var(i), 1])
        for j in range(m):
            if lo <= v0 + j <= hi:
                edges.append([var(i), val(j), 1])
    need = 0
    # every variable must be assigned: lower bound 1 on S->var
    # reduction: edge (u,v) with [l,c] becomes cap c-l, plus SS->v l, u->TT l
    edges2 = []
    for u, v, c in edges:
        if u == S:
            # lower bound 1, cap 1 -> cap 0
            edges2.append([SS, v, 1])
            edges2.append([S, TT, 1])
            need += 1
        else:
            edges2.append([u, v, c])
    for j in range(m):
        l, u = lows[j], ups[j]
        edges2.append([val(j), T, u - l])
        if l > 0:
            edges2.append([SS, T, l])
            edges2.append([val(j), TT, l])
            need += l
    edges2.append([T, S, 10 ** 6])
    return _maxflow(4 + n + m, edges2, SS, TT) == need


def alldiff_greedy(box):
    """earliest-deadline greedy for interval domains (complete for intervals): variables by increasing max, each takes
    the smallest free value >= its min; works for values of any magnitude"""
    used = set()
    for lo, hi in sorted(box, key=lambda d: (d[1], d[0])):
        c = lo
        while c in used:
            c += 1
        if c > hi:
            return False
        used.add(c)
    return True


def alldiff_feasible(box):
    if any(lo > hi for lo, hi in box):
        return False
    if not box:
        return True
    lo0 = min(lo for lo, _ in box)
    hi0 = max(hi for _, hi in box)
    m = hi0 - lo0 + 1
    if m > 300:
        return alldiff_greedy(box)
    return gcc_feasible(lo0, [0] * m, [1] * m, box)


def feasible(alg, ps, box):
    if alg == "alldifferent":
        return alldiff_feasible(box)
    m = (len(ps) - 1) // 2
    return gcc_feasible(ps[0], list(ps[1 : 1 + m]), list(ps[1 + m : 1 + 2 * m]), box)


def unsupported_bounds(alg, ps, box):
    """the (k, side, value) bounds of `box` that no solution inside `box` attains"""
    bad = []
    for k, (lo, hi) in enumerate(box):
        for side, v in (("min", lo), ("max", hi)):
            b = [tuple(d) for d in box]
            b[k] = (v, v)
            if not feasible(alg, ps, b):
                bad.append((k, side, v))
    return bad
