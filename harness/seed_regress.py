#!/usr/bin/env python3
"""re-run the quick check of the property each stored seed breaks (seeded/*/meta.json) against a scratch worktree with the seed
applied; prints the seeds that are no longer detected.  usage: seed_regress.py [--jobs N] [--out DIR] [ids...]"""
import argparse, json, os, subprocess, sys, threading, glob, shutil

VERIF = os.path.dirname(os.path.dirname(os.path.abspath(__file__)))
ap = argparse.ArgumentParser()
ap.add_argument("ids", nargs="*")
ap.add_argument("--jobs", type=int, default=6)
ap.add_argument("--out", default="/root/seedreg")
a = ap.parse_args()
os.makedirs(a.out, exist_ok=True)
seeds = sorted(glob.glob(os.path.join(VERIF, "seeded", "*", "meta.json")))
todo = []
for m in seeds:
    meta = json.load(open(m))
    sid = os.path.basename(os.path.dirname(m))
    if a.ids and not any(sid.startswith(i) for i in a.ids):
        continue
    todo.append((sid, meta["breaks_property"], os.path.join(os.path.dirname(m), "patch.diff"), list(meta.get("caught_by", {}).keys())))
lock = threading.Lock()
results = {}

def worker(k):
    wt = f"/tmp/sreg_{k}"
    subprocess.run(["git", "-C", "/repo", "worktree", "remove", "--force", wt], capture_output=True)
    subprocess.run(["git", "-C", "/repo", "worktree", "add", "-q", "--detach", wt, "HEAD"], check=True)
    try:
        while True:
            with lock:
                if not todo:
                    return
                sid, prop, patch, caught = todo.pop()
            subprocess.run(["git", "-C", wt, "checkout", "-q", "--", "."], check=True)
            r = subprocess.run(["git", "-C", wt, "apply", patch], capture_output=True, text=True)
            if r.returncode != 0:
                with lock:
                    results[sid] = ("patch-does-not-apply", prop)
                    print(sid, "PATCH DOES NOT APPLY", flush=True)
                continue
            env = dict(os.environ, NUCS_REPO=wt, VERIF_OUT=os.path.join(a.out, f"o{k}"), VERIF_SEED="0")
            props = [prop] + [c for c in caught if c != prop and c.startswith("C")]
            got = None
            for p in props:
                rr = subprocess.run([os.path.join(VERIF, "check"), p, "--tier", "quick"], env=env, capture_output=True, text=True)
                v = [l for l in rr.stdout.splitlines() if l.startswith("VIOLATION")]
                if rr.returncode == 1 and v:
                    got = (p, "nfi" if "no-failing-input-found" in v[0] else "concrete")
                    if got[1] == "concrete":
                        break
                elif rr.returncode == 2 and got is None:
                    got = (p, "exit2")
            with lock:
                results[sid] = (got, prop)
                print(sid, prop, "->", got, flush=True)
    finally:
        subprocess.run(["git", "-C", "/repo", "worktree", "remove", "--force", wt], capture_output=True)
        shutil.rmtree(os.path.join(a.out, f"o{k}"), ignore_errors=True)

ts = [threading.Thread(target=worker, args=(k,)) for k in range(a.jobs)]
[t.start() for t in ts]
[t.join() for t in ts]
json.dump({k: v for k, v in results.items()}, open(os.path.join(a.out, "results.json"), "w"), indent=1)
bad = [k for k, (g, p) in results.items() if g is None or g == "patch-does-not-apply" or (isinstance(g, tuple) and g[1] != "concrete")]
print("NOT CONCRETELY DETECTED:", bad)
