"""
Direct evaluation with a USER-REGISTERED constraint that is woken by instantiation only (C09, C10, C02, C01).

The only shipped constraint that watches GROUND alone is no_sub_cycle, and in the circuit models it is always posted with
alldifferent, whose propagation instantiates another variable afterwards and so re-runs it: a lost GROUND announcement (by a value
heuristic, by the write-back, by shaving, by the replay on backtracking) then never yields a wrong result.  The documented
registration API lets a user post such a constraint alone.  This module registers `x != y + c`, filtered on instantiation only, in
the check's own process (interpreted mode), posts it next to shipped constraints on small generated problems and compares the real
solver's enumeration with brute force for every consistency algorithm and heuristic.  No model correspondence is involved: the Lean
model has no such constraint; what is evaluated is the property itself on the implementation.
"""
import itertools

import nv
import oracle

_REG = [None]


def _register():
    if _REG[0] is not None:
        return _REG[0]
    import numpy as np
    import nucs.propagators.propagators as PR
    from nucs.constants import EVENT_MASK_GROUND, MAX, MIN, PROP_CONSISTENCY, PROP_ENTAILMENT, PROP_INCONSISTENCY

    def get_triggers_neq(n, parameters):
        return np.full(n, dtype=np.uint8, fill_value=EVENT_MASK_GROUND)

    def get_complexity_neq(n, parameters):
        return 1.0

    def compute_domains_neq(domains, parameters):
        x, y, c = domains[0], domains[1], parameters[0]
        xg, yg = x[MIN] == x[MAX], y[MIN] == y[MAX]
        if xg and yg:
            return PROP_INCONSISTENCY if x[MIN] == y[MIN] + c else PROP_ENTAILMENT
        if xg:
            v = x[MIN] - c
            if y[MIN] == v:
                y[MIN] += 1
            if y[MAX] == v:
                y[MAX] -= 1
            return PROP_INCONSISTENCY if y[MIN] > y[MAX] else PROP_CONSISTENCY
        if yg:
            v = y[MIN] + c
            if x[MIN] == v:
                x[MIN] += 1
            if x[MAX] == v:
                x[MAX] -= 1
            return PROP_INCONSISTENCY if x[MIN] > x[MAX] else PROP_CONSISTENCY
        return PROP_CONSISTENCY

    _REG[0] = PR.register_propagator(get_triggers_neq, get_complexity_neq, compute_domains_neq)
    return _REG[0]


def gen(rng):
    """-> (shared domains, dom_indices, dom_offsets, neq constraints (x, y, c), other constraints (vars, alg name, params))"""
    kind = rng.choice(["random", "random", "probe", "probe", "pinch"])
    if kind == "probe":
        # x in [a, a+2], z = a+1 INTERIOR to it (the user's constraint cannot prune it by bounds); a+2 is cut later by a MAX event
        # (x + w <= a+2 once w = 0 has been refuted on trying: r <= w, s <= w, r + s >= 1); then x = a is refuted only once it is TRIED
        # (p <= x - a, q <= x - a, p + q >= 1) by a shaving probe or a decision: what remains is the single value a+1 = z, and only the
        # announcement of that instantiation wakes the user's constraint
        a = rng.randint(-2, 2)
        z = a + rng.choice([1, 1, 1, 2])
        shr = [(a, a + 2), (0, 1), (0, 1), (z, z), (0, 1), (0, 1), (0, 1)]
        others = [([1, 0], "affine_leq", [1, -1, -a]), ([2, 0], "affine_leq", [1, -1, -a]), ([1, 2], "affine_geq", [1, 1, 1]),
                  ([0, 4], "affine_leq", [1, 1, a + 2]), ([5, 4], "affine_leq", [1, -1, 0]), ([6, 4], "affine_leq", [1, -1, 0]),
                  ([5, 6], "affine_geq", [1, 1, 1])]
        rng.shuffle(others)
        # the variables in a random order (shaving probes them in that order: the cut of a+2 has to come before the probe of x)
        perm = list(range(7))
        rng.shuffle(perm)  # old variable i becomes variable perm[i]
        shr2 = [None] * 7
        for i_, d_ in enumerate(shr):
            shr2[perm[i_]] = d_
        others = [([perm[v] for v in vs], a_, ps) for vs, a_, ps in others]
        return shr2, list(range(7)), [0] * 7, [(perm[0], perm[3], 0)], others
    if kind == "pinch":
        # x in [a, a+2] and its view x + 1 in one alldifferent with the constants a and a + 3: the two occurrences are pruned from
        # opposite sides in ONE call, neither local copy is a single value, their intersection is
        a = rng.randint(-2, 2)
        shr = [(a, a + 2), (a, a), (a + 3, a + 3), (a + rng.choice([0, 1, 1, 2]),) * 2]
        idx, off = [0, 1, 2, 3, 0], [0, 0, 0, 0, 1]
        vs = [0, 4, 1, 2]
        rng.shuffle(vs)
        return shr, idx, off, [(0, 3, 0)], [(vs, "alldifferent", [])]
    nvars = rng.randint(2, 4)
    shr = []
    for _ in range(nvars):
        a = rng.randint(-2, 2)
        shr.append((a, a + rng.choice([1, 1, 2, 2, 3])))
    neqs = []
    for _ in range(rng.randint(1, 3)):
        x, y = rng.sample(range(nvars), 2)
        neqs.append((x, y, rng.randint(-1, 1)))
    others = []
    for _ in range(rng.randint(0, 2)):
        k = rng.randint(1, min(3, nvars))
        vs = rng.sample(range(nvars), k)
        if rng.random() < 0.7:
            cs = [rng.choice([-2, -1, 1, 2]) for _ in vs]
            mid = sum(c * rng.randint(*shr[v]) for c, v in zip(cs, vs))
            others.append((vs, "affine_leq", cs + [mid + rng.randint(-1, 1)]))
        else:
            others.append((vs, "alldifferent", []))
    return shr, list(range(nvars)), [0] * nvars, neqs, others


def run(report, rng, n_cases, cons_choices=(0, 1)):
    """-> list of violations"""
    import numpy as np
    from nucs.problems.problem import Problem
    import nucs.propagators.propagators as PR

    alg = _register()
    names = nv.alg_names()
    viol = []
    hangs = 0
    for _ in range(n_cases):
        shr, idx, off, neqs, others = gen(rng)
        want = []
        for d in itertools.product(*[range(a, b + 1) for a, b in shr]):
            t = [d[i] + o for i, o in zip(idx, off)]
            if all(t[x] != t[y] + c for x, y, c in neqs) and all(oracle.rel(a, ps, [t[v] for v in vs]) for vs, a, ps in others):
                want.append(list(t))
        cons = rng.choice(list(cons_choices))
        varh = rng.randrange(3)
        domh = rng.randrange(4)
        cfg = nv.Cfg(cons=cons, varh=varh, domh=domh)
        try:
            with nv.guard(20):
                p = Problem([tuple(d) for d in shr], list(idx), list(off))
                for x, y, c in neqs:
                    p.add_propagator(([x, y], alg, [c]))
                for vs, a, ps in others:
                    p.add_propagator((list(vs), names.index(a), list(ps)))
                s = cfg.solver(p)
                got = [[int(v) for v in sol] for sol in s.solve()]
        except nv.Hang:
            hangs += 1
            viol.append({"kind": "ground-watch", "shr": shr, "neq": neqs, "others": others, "cfg": cfg.to_json(), "detail": "the enumeration did not return"})
            if hangs >= 3:
                break
            continue
        except Exception as e:  # noqa: BLE001
            viol.append({"kind": "ground-watch", "shr": shr, "neq": neqs, "others": others, "cfg": cfg.to_json(), "detail": f"{type(e).__name__}: {e}"})
            continue
        report.cov["evaluations"] += 1
        report.count("ground_watch", f"{nv.CONS_ALGS[cons][:5]}/{nv.DOM_HEURS[domh][:9]}")
        if sorted(got) != sorted(want):
            bad = [g for g in got if g not in want][:2]
            missing = [w for w in want if w not in got][:2]
            viol.append({"kind": "ground-watch", "shr": shr, "neq": neqs, "others": others, "cfg": cfg.to_json(),
                         "detail": f"with a user-registered constraint x != y + c that is woken by instantiation only, the enumeration returns {len(got)} vectors, brute force {len(want)}; "
                                   f"reported but violating: {bad}; lost: {missing}; duplicates: {len(got) - len({tuple(g) for g in got})}"})
    return viol
