import random

import nv
from props._solver import standard_run


def run(ctx):
    corr, viol = standard_run(ctx, "C03", {"opt", "term", "crash"}, 500, 30000, ["optimize_unwatched_objective"], with_opt=True)
    return {"corr_diffs": corr, "violations": viol, "component": "optimize (NucsModel/Engine/Search.lean) vs BacktrackSolver.minimize/maximize"}
