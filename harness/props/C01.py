from props._solver import standard_run


def run(ctx):
    corr, viol = standard_run(ctx, "C01", {"sat", "term", "crash"}, 700, 12000,
                              ["affine_eq_ground", "duplicate_shared_domain", "self_wake_skipped"])
    return {"corr_diffs": corr, "violations": viol, "component": "solveAll/optimize (NucsModel/Engine/Search.lean) vs BacktrackSolver",
            "hypotheses": ["C01 theorems assume ProbOk (all posted algorithms in provenAlgs, posted within contract); alldifferent/gcc are conditional on their stated local contracts"],
            "assumptions": ["decision domains = all shared domains", "stack height 128 suffices for the generated problems"]}
