from props._solver import standard_run


def run(ctx):
    corr, viol = standard_run(ctx, "C01", {"sat", "term", "crash"}, 700, 40000,
                              ["affine_eq_ground", "duplicate_shared_domain", "self_wake_skipped"])
    return {"corr_diffs": corr, "violations": viol, "component": "solveAll/optimize (NucsModel/Engine/Search.lean) vs BacktrackSolver",
            "hypotheses": ["C01 theorems assume ProbOk: posted within contract; all 21 shipped algorithms are in provenAlgs (alldifferent and gcc through their proved result checkers: that the checked models equal the code is established by the correspondence)"],
            "assumptions": ["decision domains = all shared domains", "stack height 128 suffices for the generated problems"]}
