import random

import nv
from props._solver import standard_run, solver_sweep


def run(ctx):
    corr, viol = standard_run(ctx, "C02", {"enum", "term", "crash", "stack", "oob"}, 700, 40000,
                              ["split_low_ground", "duplicate_shared_domain"], with_opt=False)
    # the multiset must not depend on the order in which the constraints were posted
    import corr_engine as ce
    rng = random.Random(ctx["seed"] + 77)
    cases = []
    for _ in range(60 * nv.boost("engine") if ctx["tier"] == "quick" else 1500):
        p, theme = ce.gen_problem(rng)
        if len(p.props) < 2:
            continue
        cfg = ce.gen_cfg(rng, p)
        q = nv.Prob(p.shr, p.idx, p.off, list(p.props))
        rng.shuffle(q.props)
        cases.append({"op": "solve", "problem": p.to_json(), "cfg": ce.cfg_json(cfg), "theme": theme})
        cases.append({"op": "solve", "problem": q.to_json(), "cfg": ce.cfg_json(cfg), "theme": theme})
    res = ce.run_impl(cases, jit=False, tag="C02p")
    for i in range(0, len(cases), 2):
        a, b = res[i], res[i + 1]
        ctx["report"].cov["evaluations"] += 2
        if a[0] == "ok" and b[0] == "ok" and sorted(a[1]) != sorted(b[1]):
            viol.append({"kind": "order", "problem": cases[i]["problem"], "permuted": cases[i + 1]["problem"], "cfg": cases[i]["cfg"],
                         "detail": f"posting order changes the solution multiset: {len(a[1])} vs {len(b[1])}"})
    return {"corr_diffs": corr, "violations": viol, "component": "solveAll vs BacktrackSolver.solve() (sequence, statistics)",
            "assumptions": ["an enumeration that aborts with an exception (stack overflow with the default height, index error) on a generated problem does not 'yield every solution and then stop': reported as a violation"]}
