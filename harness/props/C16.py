import os
import random
import subprocess
import sys
import json

import nv
from props._solver import gen_cases

SWEEP = r'''
import sys, json
sys.path.insert(0, %(h)r)
import nv
nv.setup_env(jit=False)
import boundscheck, gen, random
boundscheck.install(nv.REPO)
import numpy as np
import nucs.propagators.propagators as P
rng = random.Random(%(seed)d)
out = {"calls": 0, "oob": []}
for alg in gen.ALGS:
    cases = list(gen.prop_scope(alg))
    if len(cases) > %(per)d:
        cases = rng.sample(cases, %(per)d)
    cases += [gen.prop_random(alg, rng) for _ in range(%(rnd)d)]
    fct = getattr(P, "compute_domains_" + alg)
    for ps, b in cases:
        if alg == "gcc":
            m = (len(ps) - 1) // 2
            if any(u == 0 for u in ps[1 + m:1 + 2 * m]):
                continue
        d = boundscheck.wrap(np.array(b, dtype=np.int32).reshape((-1, 2)))
        p = boundscheck.wrap(np.array(ps, dtype=np.int32))
        out["calls"] += 1
        try:
            fct(d, p)
        except IndexError as e:
            out["oob"].append({"alg": alg, "params": list(ps), "box": [list(x) for x in b], "detail": str(e)[:200]})
print(json.dumps(out))
'''


def run(ctx):
    nv.setup_env(jit=False)
    import corr_engine as ce
    import regress

    report = ctx["report"]
    rng = random.Random(ctx["seed"] + 1601)
    viol, corr = [], []
    for name, r in regress.run(["max_regret_ties"]).items():
        report.cov["evaluations"] += 1
        if not r["ok"]:
            viol.append({"kind": "corpus", "case": name, "detail": r["detail"]})
    # (1) every propagator on checked arrays (negative indices refused, too large ones raise anyway)
    pb = nv.boost("engine") if any(f.startswith("propagators/") or f.startswith("heuristics/") for f in nv.changed_files()) else 1
    per, rnd = (400 * pb, 150 * pb) if ctx["tier"] == "quick" else (6000, 3000)
    code = SWEEP % {"h": os.path.dirname(os.path.abspath(nv.__file__)), "seed": ctx["seed"], "per": per, "rnd": rnd}
    r = subprocess.run([sys.executable, "-c", code], capture_output=True, text=True, timeout=3000)
    if r.returncode != 0:
        raise RuntimeError("checked propagator sweep failed: " + r.stderr[-400:])
    res = json.loads(r.stdout.strip().splitlines()[-1])
    report.cov["evaluations"] += res["calls"]
    report.count("checked_propagator_calls", None, res["calls"])
    for o in res["oob"]:
        viol.append(dict(o, kind="oob"))
    # (2) whole searches on checked arrays (stacks, trigger matrix, cost tables, heuristics): every shipped
    #     consistency algorithm x variable x value heuristic
    n = 300 * nv.boost("engine") if ctx["tier"] == "quick" else 6000
    cases = gen_cases(rng, n, with_opt=True)
    out = ce.run_impl(cases, jit=False, tag="C16", checked=True, case_timeout=60)
    ans = nv.Model().ask(ce.model_lines(cases))
    for c, rr, a in zip(cases, out, ans):
        report.cov["evaluations"] += 1
        replay = {k: c[k] for k in c if k != "theme"}
        il = ce.impl_line(c, rr)
        report.count("search_outcome", rr[0] if rr[0] != "err" else "err:" + str(rr[1]))
        if rr[0] == "err" and rr[1] == "oob":
            viol.append(dict(replay, kind="oob", detail="IndexError / negative index during an in-contract search"))
        elif rr[0] in ("hang", "crash"):
            viol.append(dict(replay, kind="oob", detail=f"{rr[0]}: {rr[1]}"))
        elif rr[0] in ("ok", "err") and il != a:
            corr.append(dict(replay, implementation=il[:300], model=a[:300]))
        if rr[0] == "ok" and rr[2][10] > 0:
            report.nontrivial(ce.model_lines([c])[0])
        report.sample({"case": replay, "outcome": rr[0]}, cap=3)
    # (3) compiled code with NUMBA_BOUNDSCHECK=1 (thorough tier): an out-of-range access raises instead of corrupting
    if ctx["tier"] == "thorough":
        env = dict(os.environ)
        os.environ["NUMBA_BOUNDSCHECK"] = "1"
        try:
            sub = cases[: min(len(cases), 800)]
            outj = ce.run_impl(sub, jit=True, tag="C16j", case_timeout=120)
            for c, rr in zip(sub, outj):
                report.cov["evaluations"] += 1
                if rr[0] in ("crash", "hang") or (rr[0] == "err" and rr[1] == "oob"):
                    viol.append({"kind": "oob", "mode": "jit+boundscheck", "problem": c["problem"], "cfg": c["cfg"], "detail": f"{rr[0]} {rr[1]}"})
        finally:
            os.environ.pop("NUMBA_BOUNDSCHECK", None)
    report.cov["traces_validated_against_impl"] = len(cases)
    report.cov["rule"] = ("(1) every compute_domains_* on in-contract boxes/parameters (exhaustive small scope sampled + random) with sign- and bounds-"
                          "checked arrays: any IndexError or computed negative index is a violation (literal negative subscripts are exempted by "
                          "their AST positions, recomputed from the current source); (2) whole searches (all consistency algorithms and heuristics, "
                          "cost tables) on checked stacks/matrices, compared with the model (whose checked accessors answer `oob`); (3) thorough: "
                          "compiled code under NUMBA_BOUNDSCHECK=1")
    return {"corr_diffs": corr, "violations": viol, "component": "Err.oob / EngErr.oob outcomes of the model vs IndexError / negative index in the interpreted engine",
            "partial": ["Safe is proved for 19 algorithms and no_sub_cycle's path arrays; for the ported alldifferent/gcc pointer chasing absence of out-of-bounds access is validated (never observed), not proved; gcc with a zero capacity is known finding K1"]}
