import gen
from props._local import run_local

# algorithms whose `Sound` theorem is proved; the others are covered by correspondence + oracle only
def run(ctx):
    r = run_local(ctx, "C05", {"sound"}, gen.ALGS, ["max_eq_loses_solution"], "runAlg (NucsModel/Registry.lean) vs compute_domains_*")
    r["partial"] = ["Sound is proved for all 21 algorithms; for alldifferent and gcc the registered model is the faithful port wrapped in a proved result checker: that this model equals the code (the checker never rejects) is what the correspondence shows on every run"]
    return r
