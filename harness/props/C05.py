import gen
from props._local import run_local

# algorithms whose `Sound` theorem is proved; the others are covered by correspondence + oracle only
def run(ctx):
    r = run_local(ctx, "C05", {"sound"}, gen.ALGS, ["max_eq_loses_solution"], "runAlg (NucsModel/Registry.lean) vs compute_domains_*")
    r["partial"] = ["Sound is stated for all 21 algorithms (Spec.lean); proved ones are the theorems listed under coverage.theorems; alldifferent and gcc (Hall-interval algorithms) are ported and tied by correspondence, their Sound is validated by the brute-force oracle, not proved"]
    return r
