import json
import os
import random
import subprocess
import sys

import gen
import nv
from props._local import run_local


def big_products(ctx):
    """COMPILED mode, linear constraints whose single terms a_i*x_i exceed 32 bits although every coefficient, bound and the
    right-hand side fit int32 and the true sums fit 63 bits: the compiled code computes them exactly (int64 promotion); the
    interpreted engine does not (known finding K2), so these inputs are only compared in compiled mode — against the model
    (unbounded integers) and, on instantiated boxes, against exact Python arithmetic"""
    rng = random.Random(ctx["seed"] + 505)
    n_cases = 300 * max(nv.boost("alg:affine_eq"), nv.boost("alg:affine_leq"), nv.boost("alg:affine_geq")) if ctx["tier"] == "quick" else 6000
    cases = []
    for _ in range(n_cases):
        alg = rng.choice(["affine_eq", "affine_eq", "affine_leq", "affine_geq"])
        n = rng.randint(1, 4)
        cs = [rng.choice([-1, 1]) * rng.choice([1, 7, 1000, 50000, 100000, 99991]) for _ in range(n)]
        box = []
        for _ in range(n):
            a = rng.choice([0, 1, 3, 14999, 15000, 30000, 20000, 21474])
            box.append((a, a + rng.choice([0, 0, 0, 1, 2])))
        pick = [rng.randint(lo, hi) for lo, hi in box]
        rhs = sum(c * x for c, x in zip(cs, pick)) + rng.choice([0, 0, 0, 1, -1])
        if abs(rhs) >= 2 ** 31 - 1:
            continue
        cases.append([alg, cs + [rhs], [list(d) for d in box]])
    work = os.path.join(nv.VERIF, ".cache", "work")
    os.makedirs(work, exist_ok=True)
    base = os.path.join(work, f"C05b-{os.getpid()}")
    json.dump(cases, open(base + ".cases", "w"))
    out = None
    try:
        r = subprocess.run([sys.executable, os.path.join(os.path.dirname(os.path.abspath(nv.__file__)), "jit_calls.py"), base + ".cases", base + ".out"],
                           capture_output=True, text=True, timeout=1200)
        if r.returncode == 0 and os.path.exists(base + ".out"):
            out = json.load(open(base + ".out"))
    except subprocess.TimeoutExpired:
        pass
    for ext in (".cases", ".out"):
        if os.path.exists(base + ext):
            os.remove(base + ext)
    corr, viol = [], []
    if out is None:
        ctx["report"].count("big_products_worker_failed", None, 1)
        return corr, viol
    answers = nv.Model().ask([f"prop {a} {nv.enc_ints(ps)} {nv.enc_box([tuple(d) for d in b])}" for a, ps, b in cases])
    for (alg, ps, b), (st, res), ans in zip(cases, out, answers):
        ctx["report"].cov["evaluations"] += 1
        ctx["report"].count("big_products_compiled", alg)
        impl = "0" if st == 0 else (f"{st} {nv.enc_box([tuple(d) for d in res])}" if st not in ("oob", "hang") else str(st))
        case = {"alg": alg, "params": ps, "box": b, "mode": "jit"}
        if impl != ans:
            corr.append(dict(case, implementation=impl, model=ans))
        # exact arithmetic on small boxes
        vols = 1
        for lo, hi in b:
            vols *= hi - lo + 1
        if vols <= 81:
            import itertools
            cs, k = ps[:-1], ps[-1]
            rel = {"affine_eq": lambda v: v == k, "affine_leq": lambda v: v <= k, "affine_geq": lambda v: v >= k}[alg]
            sols = [t for t in itertools.product(*[range(lo, hi + 1) for lo, hi in b]) if rel(sum(c * x for c, x in zip(cs, t)))]
            if st == 0 and sols:
                viol.append(dict(case, kind="sound", detail=f"compiled code reports inconsistency although {sols[0]} satisfies the constraint (terms exceed 32 bits)"))
            elif st not in (0, "oob", "hang"):
                lost = [t for t in sols if any(x < d[0] or x > d[1] for x, d in zip(t, res))]
                if lost:
                    viol.append(dict(case, kind="sound", detail=f"compiled code removes the solution {lost[0]}: output {res}"))
    return corr, viol


def run(ctx):
    r = run_local(ctx, "C05", {"sound"}, gen.ALGS, ["max_eq_loses_solution"], "runAlg (NucsModel/Registry.lean) vs compute_domains_*")
    c, v = big_products(ctx)
    r["corr_diffs"] += c
    r["violations"] += v
    r["partial"] = ["Sound is proved for all 21 algorithms about the registered models; alldifferent: the registered model IS the line-by-line port (C14_alldifferent_is_port); gcc: C05_gcc_port is about the raw port (every number of values, upper capacities >= 1) and the registered model is the port for at most 12 values (C14_gcc_is_port)"]
    return r
