import random

import nv


def run(ctx):
    nv.setup_env(jit=False)
    import corr_engine as ce
    import regress

    report = ctx["report"]
    rng = random.Random(ctx["seed"] + 1901)
    viol, corr = [], []
    names = ["stack_pointer_wrap", "index_width"] if ctx["tier"] == "thorough" else ["stack_pointer_wrap"]
    for name, r in regress.run(names).items():
        report.cov["evaluations"] += 1
        report.count("corpus", name)
        if not r["ok"]:
            viol.append({"kind": "corpus", "case": name, "detail": r["detail"]})
    heights = [2, 3, 4, 5, 6, 7, 8, 127, 128, 255, 256, 257, 300, 512]
    cases = []
    for h in heights:
        depths = [1, 2, 3, 4, 5, 6, 7, 8, 9] if h <= 8 else ([6, h - 4, h - 3, h - 2, h - 1, h, h + 3] if ctx["tier"] == "thorough" or h in (128, 256, 257) else [6, h - 2])
        for n in depths:
            if n < 1 or n > 300:
                continue
            # n booleans chained so that only two assignments survive: x_i <= x_{i+1}; the search still reaches depth ~n
            props = [([i, i + 1], "affine_leq", [1, -1, 0]) for i in range(n - 1)] + [([0, n - 1], "affine_eq", [1, -1, 0])]
            prob = nv.Prob([(0, 1)] * n, props=props)
            for domh in (0, 3):
                cfg = nv.Cfg(domh=domh, height=h)
                cases.append({"op": "solve", "problem": prob.to_json(), "cfg": ce.cfg_json(cfg), "n": n, "limit": 3})
    # three-way splits at the limit: unconstrained variables over {0,1,2} under mid_value (the interior value is taken first: two
    # levels are pushed per decision), optionally preceded by one Boolean so that both parities of the height are reached
    for h in heights:
        if h > 256:
            continue
        base_ns = sorted({max(1, (h - 1) // 2 + d) for d in (-2, -1, 0, 1)}) if h > 8 else [1, 2, 3, 4, 5]
        for n3 in base_ns:
            for lead in (0, 1):
                if n3 + lead > 140:
                    continue
                shr = [(0, 1)] * lead + [(0, 2)] * n3
                prob = nv.Prob(shr, props=[])
                cfg = nv.Cfg(domh=3, height=h)
                cases.append({"op": "solve", "problem": prob.to_json(), "cfg": ce.cfg_json(cfg), "n": n3 + lead, "limit": 4, "ternary": True,
                              "total": (2 ** lead) * (3 ** min(n3, 3))})
                # the same under min_cost with the INTERIOR value cheapest (it also goes through the three-way split and pushes two
                # levels), and with a bound cheapest (one level), with shaving as well
                for costs in ([3, 1, 2], [1, 3, 2]):
                    for cons in ((0, 1) if h <= 8 else (0,)):
                        cfg = nv.Cfg(cons=cons, domh=4, dom_costs=[list(costs) for _ in shr], height=h)
                        cases.append({"op": "solve", "problem": prob.to_json(), "cfg": ce.cfg_json(cfg), "n": n3 + lead, "limit": 4, "ternary": True,
                                      "total": (2 ** lead) * (3 ** min(n3, 3))})
    jit = ctx["tier"] == "thorough"
    res = ce.run_impl(cases, jit=False, tag="C19", timeout_per_batch=600)
    small = [i for i, c in enumerate(cases) if c["cfg"]["height"] <= 256]
    ans = nv.Model().ask(ce.model_lines([cases[i] for i in small]))
    amap = dict(zip(small, ans))
    for i, (c, r) in enumerate(zip(cases, res)):
        report.cov["evaluations"] += 1
        h, n = c["cfg"]["height"], c["n"]
        report.count("outcome", f"{r[0]}:{r[1] if r[0]=='err' else ''}")
        report.count("height_class", "h>256" if h > 256 else ("h<=8" if h <= 8 else "large"))
        replay = {k: c[k] for k in ("problem", "cfg", "limit")}
        if r[0] in ("hang", "crash"):
            viol.append(dict(replay, kind="capacity", detail=f"height {h}, {n} booleans: the solver process {r[0]}ed: {r[1]}"))
            continue
        report.nontrivial((h, n, c["cfg"]["domh"]))
        if h > 256:
            if not (r[0] == "err" and r[1] == "refused"):
                viol.append(dict(replay, kind="capacity", detail=f"stack_max_height={h} exceeds the 8-bit stack pointer but was not refused: {r}"))
            continue
        il = ce.impl_line(c, r)
        if il != amap[i]:
            corr.append(dict(replay, implementation=il[:300], model=amap[i][:300]))
        if r[0] == "ok" and c.get("ternary"):
            # unconstrained: every vector of the box is a solution; the enumeration may only stop early by raising
            want = min(c["limit"], c["total"])
            if len(r[1]) < want or len({tuple(x) for x in r[1]}) != len(r[1]):
                viol.append(dict(replay, kind="capacity", detail=f"height {h}, three-way splits: the enumeration ended without error after {len(r[1])} "
                                                                f"distinct solutions of at least {want}: {r[1][:2]}"))
        elif r[0] == "ok":
            # whatever the height, results that ARE returned must be right: the two constant assignments
            exp = [[0] * n, [1] * n]
            if sorted(r[1]) != sorted(exp)[: len(r[1])] and sorted(r[1]) != exp:
                viol.append(dict(replay, kind="capacity", detail=f"height {h}: wrong/duplicated/missing solutions {r[1][:3]}"))
        if r[0] == "err" and r[1] == "oob":
            viol.append(dict(replay, kind="capacity", detail=f"height {h}: an index error other than the documented stack-overflow report escaped (a write beyond the stacks)"))
        report.sample({"height": h, "booleans": n, "implementation": il[:120], "model": amap[i][:120]}, cap=5)
    # compiled mode (where an unguarded overflow would corrupt memory): same cases for a few heights
    sub = [i for i, c in enumerate(cases) if c["cfg"]["height"] in ((6, 256, 257) if ctx["tier"] == "quick" else (4, 6, 8, 128, 256, 257, 512))]
    resj = ce.run_impl([cases[i] for i in sub], jit=True, tag="C19j", timeout_per_batch=900)
    for i, rj in zip(sub, resj):
        report.cov["evaluations"] += 1
        report.count("outcome_jit", f"{rj[0]}:{rj[1] if rj[0]=='err' else ''}")
        c = cases[i]
        replay = {k: c[k] for k in ("problem", "cfg", "limit")}
        if rj[0] in ("hang", "crash"):
            viol.append(dict(replay, kind="capacity", mode="jit", detail=f"compiled solver {rj[0]}ed: {rj[1]}"))
        elif ce.impl_line(c, rj) != ce.impl_line(c, res[i]):
            viol.append(dict(replay, kind="capacity", mode="jit", detail=f"compiled and interpreted runs differ: {ce.impl_line(c, rj)[:150]} vs {ce.impl_line(c, res[i])[:150]}"))
    # shaving at the largest height (compiled only: probing every variable at every node is too slow under interpretation): a probe
    # pushes one more level than the decision does, so the stack fills one level earlier; unconstrained variables, every vector is a
    # solution, the enumeration may only stop early by raising
    shv = []
    for n3 in (126, 127, 128):
        for lead in (0, 1):
            prob = nv.Prob([(0, 1)] * lead + [(0, 2)] * n3, props=[])
            shv.append({"op": "solve", "problem": prob.to_json(), "cfg": ce.cfg_json(nv.Cfg(cons=1, domh=3, height=256)), "n": n3 + lead, "limit": 4, "total": 8})
    for nb in (253, 254, 255, 256):
        prob = nv.Prob([(0, 1)] * nb, props=[])
        shv.append({"op": "solve", "problem": prob.to_json(), "cfg": ce.cfg_json(nv.Cfg(cons=1, domh=0, height=256)), "n": nb, "limit": 4, "total": 8})
    # … and a family whose solutions can be COUNTED: n variables over {0,1,2} of which at least n-1 equal 1 (2n+1 solutions); under
    # mid_value the first solution sits at the bottom of a two-levels-per-decision dive: a run that returns must return them all
    for n3 in (120, 126, 127, 128):
        for cons_ in (0, 1):
            prob = nv.Prob([(0, 2)] * n3 + [(n3 - 1, n3)], props=[(list(range(n3 + 1)), "count_eq", [1])])
            shv.append({"op": "solve", "problem": prob.to_json(), "cfg": ce.cfg_json(nv.Cfg(cons=cons_, domh=3, height=256)), "n": n3, "limit": None,
                        "total": 2 * n3 + 1, "counted": True})
    ress = ce.run_impl(shv, jit=True, tag="C19s", timeout_per_batch=900, case_timeout=90)
    anss = nv.Model().ask(ce.model_lines(shv))
    for c, r, a in zip(shv, ress, anss):
        report.cov["evaluations"] += 1
        report.count("outcome_shaving_256", f"{r[0]}:{r[1] if r[0]=='err' else ''}")
        replay = {k: c[k] for k in ("problem", "cfg", "limit")}
        if r[0] in ("hang", "crash"):
            viol.append(dict(replay, kind="capacity", mode="jit", detail=f"shaving at height 256, {c['n']} variables: the solver process {r[0]}ed: {r[1]}"))
            continue
        il = ce.impl_line(c, r)
        if il != a:
            corr.append(dict(replay, implementation=il[:300], model=a[:300]))
        if r[0] == "ok" and c.get("counted"):
            if len({tuple(x) for x in r[1]}) != c["total"] or len(r[1]) != c["total"]:
                viol.append(dict(replay, kind="capacity", mode="jit", detail=f"height 256, {c['n']} three-valued variables with at least n-1 ones: the enumeration ended without error with {len(r[1])} solutions ({len({tuple(x) for x in r[1]})} distinct) instead of {c['total']}"))
        elif r[0] == "ok" and (len(r[1]) < min(c["limit"], c["total"]) or len({tuple(x) for x in r[1]}) != len(r[1])):
            viol.append(dict(replay, kind="capacity", mode="jit", detail=f"shaving at height 256: the enumeration ended without error after {len(r[1])} distinct solutions of at least 4: {r[1][:2]}"))
        if r[0] == "err" and r[1] == "oob":
            viol.append(dict(replay, kind="capacity", mode="jit", detail="shaving at height 256: an index error other than the documented stack-overflow report escaped"))
    report.cov["traces_validated_against_impl"] = len(small)
    report.cov["rule"] = ("stack_max_height in {2..8,127,128,255,256,257,300,512} x search depth below, at and beyond the height (chains of n booleans, "
                          "2-way and 3-way branching): the real solver must either raise or return exactly the model's answer; heights the "
                          "8-bit pointer cannot address must be refused at construction")
    return {"corr_diffs": corr, "violations": viol, "component": "stack guards of solveOne (NucsModel/Engine/Search.lean) vs solve_one / BacktrackSolver.__init__",
            "partial": ["8/16-bit index widths are not modelled as machine integers: sizes around the limits are tested on the implementation (corpus case index_width, thorough tier), not proved"]}
