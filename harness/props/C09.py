from props._walk import run_walks


def run(ctx):
    corr, violations = run_walks(ctx, {"partition", "others", "events", "backtrack"}, {"heur"}, 250, 15000, ["split_low_ground"])
    # a user-registered constraint woken by instantiation only (harness/ground_watch.py): every GROUND announcement counts
    import random as _random
    import ground_watch
    import nv as _nv
    violations += ground_watch.run(ctx["report"], _random.Random(ctx["seed"] + 909), (150 * _nv.boost("engine")) if ctx["tier"] == "quick" else 3000, (0,))
    ctx["report"].cov["rule"] = (
        "random walks of the real engine: every branching decision is made by a real shipped value heuristic on the real "
        "stack arrays and replayed on the Lean model (branch taken, saved alternatives with their recorded replay events, "
        "returned events); independently: sub-ranges non-empty, disjoint, covering; other domains untouched; every moved "
        "bound announced; backtracking restores exactly the saved alternative and fails only at level 0")
    return {"corr_diffs": corr, "violations": violations, "component": "runDomHeur (NucsModel/Engine/Heuristics.lean) vs *_dom_heuristic"}
