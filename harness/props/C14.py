import gen
from props._local import run_local


def run(ctx):
    r = run_local(ctx, "C14", {"exact", "sound"}, gen.BC_ALGS + ["affine_eq"], ["max_eq_loses_solution"],
                  "runAlg vs compute_domains_* (equality of status and box) for the documented bound-consistent algorithms")
    r["partial"] = ["Exact proved for the algorithms listed under coverage.theorems; for the others (in particular alldifferent, gcc) exactness is validated against the brute-force hull, not proved"]
    return r
