import random

import gen
import nv
from props._local import run_local


def big_case(alg, rng):
    """cases beyond the brute-force oracle's reach; two thirds are built around a hidden solution so that most calls
    do not fail and the answer has to be a non-trivial hull"""
    planted = rng.random() < 0.67
    if alg == "alldifferent":
        n = rng.randint(5, 14)
        w = rng.randint(1, 6)
        hidden = rng.sample(range(-3, n + 3), n)
        box = []
        for k in range(n):
            if planted:
                a = hidden[k] - rng.randint(0, w)
                box.append((a, max(hidden[k], a + rng.randint(0, w))))
            else:
                a = rng.randint(-3, n + 1)
                box.append((a, a + rng.randint(0, w)))
        return [], box
    n = rng.randint(4, 12)
    m = rng.randint(2, 7)
    v0 = rng.randint(-3, 3)
    hidden = [rng.randint(v0, v0 + m - 1) for _ in range(n)]
    if planted:
        cnt = [sum(1 for x in hidden if x == v0 + j) for j in range(m)]
        l = [max(0, c - rng.randint(0, 2)) for c in cnt]
        u = [max(1, c + rng.randint(0, 2)) for c in cnt]
    else:
        l = [rng.randint(0, 2) for _ in range(m)]
        u = [max(1, x + rng.randint(0, 3)) for x in l]
    box = []
    for k in range(n):
        if planted:
            a = rng.randint(v0, hidden[k])
            box.append((a, rng.randint(hidden[k], v0 + m - 1)))
        else:
            a = rng.randint(v0, v0 + m - 1)
            box.append((a, rng.randint(a, v0 + m - 1)))
    return [v0] + l + u, box


def certificate_sweep(ctx, report):
    """Translation validation of exactness for alldifferent and gcc (whose `Exact` is not proved for all inputs):
    every non-failing answer of the REAL code gets a support certificate from the model (`supp`: for every bound of
    every variable a solution inside the answer attaining it, found by an unverified search and re-checked by a
    verifier proved sound: `C14_alldifferent_instance`, `C14_gcc_instance`) — with the certificate the answer is
    proved to be the hull and a fixpoint.  Without one, an independent max-flow test decides whether a bound really
    lacks a support (concrete violation) or the search gave up (counted, no alarm)."""
    import flowcheck
    import props_sweep

    rng = random.Random(ctx["seed"] + 1414)
    bst = max(nv.boost("alg:alldifferent"), nv.boost("alg:gcc"))
    n_scope = 1500 * bst if ctx["tier"] == "quick" else 20000
    n_big = 600 * bst if ctx["tier"] == "quick" else 8000
    model = nv.Model()
    viol = []
    for alg in ("alldifferent", "gcc"):
        cases = [gen.prop_random(alg, rng) for _ in range(n_scope)] + [big_case(alg, rng) for _ in range(n_big)]
        if alg == "alldifferent":  # values far from zero, domains wider than 16 bits
            cases += [gen.prop_wide(alg, rng) for _ in range(n_big // 2)]
        cases = [(ps, b) for ps, b in cases if props_sweep.known_finding(alg, ps, b) is None]
        outs, reqs = [], []
        for ps, b in cases:
            st, out = nv.impl_prop(alg, ps, b)
            report.cov["evaluations"] += 1
            if st in (0, "oob", "hang"):
                report.count("certificate", f"{alg}:failing-call")
                if st == 0 and flowcheck.feasible(alg, ps, b):
                    viol.append({"alg": alg, "params": list(ps), "box": [list(d) for d in b], "kind": "sound",
                                 "detail": "inconsistency reported although a max-flow assignment satisfying the constraint exists in the box"})
                continue
            outs.append((ps, b, st, out))
            reqs.append(f"supp {alg} {nv.enc_ints(ps)} {nv.enc_box(out)}")
        answers = model.ask(reqs)
        for (ps, b, st, out), ans in zip(outs, answers):
            case = {"alg": alg, "params": list(ps), "box": [list(d) for d in b]}
            # the hull must also not be SMALLER than the bounds hull: soundness is proved for the model and the
            # model equals the code on this call (checked by the sweep); here: tightening beyond the input is sound iff
            # every removed bound value has no support
            if ans == "1":
                report.count("certificate", f"{alg}:certified")
                report.nontrivial((alg, tuple(ps), tuple(map(tuple, b))))
                continue
            bad = flowcheck.unsupported_bounds(alg, ps, [tuple(d) for d in out])
            if bad:
                k, side, v = bad[0]
                viol.append(dict(case, kind="exact", implementation=f"{st} {nv.enc_box(out)}",
                                 detail=f"answer {out}: the {side} {v} of variable {k} is attained by no solution inside the answer (max-flow test); not bound consistent"))
            else:
                report.count("certificate", f"{alg}:search-gave-up")
        report.cov["traces_validated_against_impl"] += len(cases)
    return viol


def run(ctx):
    r = run_local(ctx, "C14", {"exact", "sound"}, gen.BC_ALGS + ["affine_eq"], ["max_eq_loses_solution"],
                  "runAlg vs compute_domains_* (equality of status and box) for the documented bound-consistent algorithms")
    r["violations"] += certificate_sweep(ctx, ctx["report"])
    r["partial"] = ["Exact proved for all inputs for the algorithms listed under coverage.theorems; for alldifferent and gcc exactness is proved per answer "
                    "from a support certificate computed by the model for every non-failing answer of the implementation in the sweep "
                    "(C14_alldifferent_instance, C14_gcc_instance), not for all inputs"]
    return r
