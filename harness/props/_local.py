"""shared body of the single-filtering-call properties C05, C06, C07, C14 (and the call part of C16)"""
import json
import os
import subprocess
import sys

import nv


def known_witnesses(ctx, prop):
    """re-run the witnesses of recorded known findings for this property under a watchdog;
    returns the KNOWN-FINDING messages of those that still fail"""
    msgs = []
    for k in ctx["known"].get("known", []):
        if prop not in k["properties"]:
            continue
        still = 0
        for w in k.get("witnesses", []):
            if w.get("property") not in (None, prop):
                continue
            code = (
                "import sys, json; sys.path.insert(0, %r); import nv; nv.setup_env(jit=False)\n"
                "import known\n"
                "print(json.dumps(known.witness_fails(json.loads(%r))))\n" % (os.path.dirname(os.path.abspath(nv.__file__)), json.dumps(w))
            )
            try:
                r = subprocess.run([sys.executable, "-c", code], capture_output=True, text=True, timeout=30)
                if r.returncode != 0 or json.loads(r.stdout.strip().splitlines()[-1]):
                    still += 1
            except subprocess.TimeoutExpired:
                still += 1
        if still:
            msgs.append(f"{k['id']}: {k['summary']} ({still} stored witnesses still fail)")
    return msgs


def run_local(ctx, prop, kinds, algs, regress_names, component):
    nv.setup_env(jit=False)
    import props_sweep
    import regress

    report = ctx["report"]
    violations, corr = [], []
    # corpus first: replays of the fixed findings of this property
    for name, r in regress.run(regress_names).items():
        report.cov["evaluations"] += 1
        report.count("corpus", name)
        if not r["ok"]:
            violations.append({"kind": "corpus", "case": name, "detail": r["detail"]})
    d, v = props_sweep.sweep(algs, ctx["tier"], ctx["seed"], report, kinds)
    corr += d
    violations += v
    if (not ctx["proof"]["ok"] or corr) and not violations and ctx["tier"] == "quick":
        # an obligation or the correspondence broke: search harder for a concrete failing input
        d2, v2 = props_sweep.sweep(algs, "thorough", ctx["seed"] + 1, report, kinds)
        violations += v2
    report.cov["rule"] = (
        "per algorithm: the exhaustive small scope of harness/gen.py (sampled in the quick tier, complete in the thorough "
        "tier) plus seeded random wider cases; implementation result compared with the Lean model (status and box) and "
        "checked directly against the brute-force oracle; a case is non-trivial when the call prunes, fails or answers entailed"
    )
    report.cov["exhaustive"] = ctx["tier"] == "thorough"
    return {
        "corr_diffs": corr,
        "violations": violations,
        "known": known_witnesses(ctx, prop),
        "component": component,
        "assumptions": [
            "inputs satisfy the documented contract (DESIGN.md §6) and NoOverflow (values fit 31 bits)",
            "interpreted mode (NUMBA_DISABLE_JIT=1) for single calls; compiled mode is compared in C15",
        ],
    }
