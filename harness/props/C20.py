import itertools
import math
import random

import nv
import oracle
from props.C13 import from_problem

LEAN = {"and": "and", "affine_eq": "affineEq", "affine_geq": "affineGeq", "affine_leq": "affineLeq", "alldifferent": "alldifferent",
        "count_eq": "countEq", "dummy": "dummy", "element_iv": "elementIv", "element_liv": "elementLiv", "element_lic": "elementLic",
        "exactly_eq": "exactlyEq", "exactly_true": "exactlyTrue", "gcc": "gcc", "lexicographic_leq": "lexLeq", "max_eq": "maxEq",
        "max_leq": "maxLeq", "min_eq": "minEq", "min_geq": "minGeq", "no_sub_cycle": "noSubCycle", "relation": "relation", "scc": "scc"}


def posted_dump(prob):
    """the model as POSTED by the Python constructor, in the driver's `example` format"""
    props = []
    for vs, a, ps in prob.props:
        pos = ",".join((f"{prob.idx[v]}:{prob.off[v]}" if 0 <= v < len(prob.idx) else f"out-of-range-variable-{v}") for v in vs)
        props.append(f"Nucs.Alg.{LEAN[a]}|{pos}|{nv.enc_ints(ps)}")
    vars_ = ",".join(f"{i}:{o}" for i, o in zip(prob.idx, prob.off))
    return f"{nv.enc_box(prob.shr)} {vars_ if vars_ else '-'} {';'.join(props) if props else '-'}"


# ---- independent, definition-level validators (written from the puzzle definitions, not from the models)

def v_queens(n, s):
    q = s[:n]
    return all(0 <= x < n for x in q) and all(q[i] != q[j] and abs(q[i] - q[j]) != j - i for i in range(n) for j in range(i + 1, n))


def v_latin(n, s):
    m = [s[i * n:(i + 1) * n] for i in range(n)]
    return all(sorted(r) == list(range(n)) for r in m) and all(sorted(m[i][j] for i in range(n)) == list(range(n)) for j in range(n))


def v_magic_sequence(n, s):
    return all(s[i] == sum(1 for x in s[:n] if x == i) for i in range(n))


def v_magic_square(n, s):
    m = [s[i * n:(i + 1) * n] for i in range(n)]
    k = n * (n * n - 1) // 2
    return (sorted(s[:n * n]) == list(range(n * n)) and all(sum(r) == k for r in m) and all(sum(m[i][j] for i in range(n)) == k for j in range(n))
            and sum(m[i][i] for i in range(n)) == k and sum(m[i][n - 1 - i] for i in range(n)) == k)


def v_schur(n, s):
    col = []
    for x in range(n):
        b = s[3 * x:3 * x + 3]
        if sorted(b) != [0, 0, 1]:
            return False
        col.append(b.index(1))
    return all(not (col[x] == col[y] == col[x + y + 1]) for x in range(n) for y in range(n) if x + y + 1 < n)


def v_circuit(n, s):
    return oracle.is_circuit(s[:n])


def v_golomb(marks, length):
    d = [b - a for a, b in itertools.combinations(marks, 2)]
    return len(set(d)) == len(d) and marks[-1] - marks[0] == length


def v_quasigroup(n, s, qg5=False):
    m = [s[i * n:(i + 1) * n] for i in range(n)]
    if not v_latin(n, s) or any(m[i][i] != i for i in range(n)):
        return False
    # the dual models: row[c][j] = i <=> m[i][j] = c ; column[i][c] = j <=> m[i][j] = c
    row = [s[n * n + c * n:n * n + (c + 1) * n] for c in range(n)]
    col = [s[2 * n * n + i * n:2 * n * n + (i + 1) * n] for i in range(n)]
    for i in range(n):
        for j in range(n):
            c = m[i][j]
            if row[c][j] != i or col[i][c] != j:
                return False
    if qg5:
        return all(m[m[m[b][a]][b]][b] == a for a in range(n) for b in range(n))
    return True


def v_sports(n, s):
    weeks, periods = n - 1, n // 2
    team = lambda p, w, k: s[p * (weeks * 2) + w * 2 + k]
    games = set()
    for w in range(weeks):
        ts = [team(p, w, k) for p in range(periods) for k in range(2)]
        if sorted(ts) != list(range(n)):
            return False
    for p in range(periods):
        ts = [team(p, w, k) for w in range(weeks) for k in range(2)]
        if any(ts.count(t) > 2 for t in range(n)):
            return False
        for w in range(weeks):
            a, b = team(p, w, 0), team(p, w, 1)
            if not a < b:
                return False
            games.add((a, b))
    return len(games) == n * (n - 1) // 2


def v_bibd(v, b, r, k, l, s):
    m = [s[i * b:(i + 1) * b] for i in range(v)]
    return (all(x in (0, 1) for x in s[:v * b]) and all(sum(row) == r for row in m) and all(sum(m[i][j] for i in range(v)) == k for j in range(b))
            and all(sum(m[i1][j] * m[i2][j] for j in range(b)) == l for i1 in range(v) for i2 in range(i1 + 1, v)))


def v_sudoku(givens, s):
    g = [s[i * 9:(i + 1) * 9] for i in range(9)]
    ok = all(sorted(r) == list(range(1, 10)) for r in g) and all(sorted(g[i][j] for i in range(9)) == list(range(1, 10)) for j in range(9))
    ok = ok and all(sorted(g[3 * a + i][3 * b + j] for i in range(3) for j in range(3)) == list(range(1, 10)) for a in range(3) for b in range(3))
    return ok and all(givens[i][j] in (0, g[i][j]) for i in range(9) for j in range(9))


SUDOKU = [[0, 0, 0, 0, 0, 0, 0, 0, 0], [0, 0, 0, 0, 0, 3, 0, 8, 5], [0, 0, 1, 0, 2, 0, 0, 0, 0], [0, 0, 0, 5, 0, 7, 0, 0, 0],
          [0, 0, 4, 0, 0, 0, 1, 0, 0], [0, 9, 0, 0, 0, 0, 0, 0, 0], [5, 0, 0, 0, 0, 0, 0, 7, 3], [0, 0, 2, 0, 1, 0, 0, 0, 0],
          [0, 0, 0, 0, 4, 0, 0, 0, 9]]
SUDOKU_EASY = [[5, 3, 0, 0, 7, 0, 0, 0, 0], [6, 0, 0, 1, 9, 5, 0, 0, 0], [0, 9, 8, 0, 0, 0, 0, 6, 0], [8, 0, 0, 0, 6, 0, 0, 0, 3],
               [4, 0, 0, 8, 0, 3, 0, 0, 1], [7, 0, 0, 0, 2, 0, 0, 0, 6], [0, 6, 0, 0, 0, 0, 2, 8, 0], [0, 0, 0, 4, 1, 9, 0, 0, 5],
               [0, 0, 0, 0, 8, 0, 0, 7, 9]]

KNOWN = {
    "queens": {1: 1, 2: 0, 3: 0, 4: 2, 5: 10, 6: 4, 7: 40, 8: 92, 9: 352},          # OEIS A000170
    "latin_square": {1: 1, 2: 2, 3: 12, 4: 576},                                     # OEIS A002860
    "magic_sequence": {4: 2, 5: 1, 6: 0, 7: 1, 8: 1, 9: 1, 10: 1},
    "magic_square_all": {3: 8}, "magic_square_sb": {3: 1, 4: 880},
    "circuit": {2: 1, 3: 2, 4: 6, 5: 24, 6: 120},                                     # (n-1)!
    "golomb": {2: 1, 3: 3, 4: 6, 5: 11, 6: 17, 7: 25, 8: 34, 9: 44, 10: 55},                                            # OEIS A003022
}


def run(ctx):
    nv.setup_env(jit=False)
    import corr_engine as ce
    from nucs.examples.alpha.alpha_problem import AlphaProblem
    from nucs.examples.donald.donald_problem import DonaldProblem
    from nucs.examples.golomb.golomb_problem import GolombProblem
    from nucs.examples.knapsack.knapsack_problem import KnapsackProblem
    from nucs.examples.magic_sequence.magic_sequence_problem import MagicSequenceProblem
    from nucs.examples.magic_square.magic_square_problem import MagicSquareProblem
    from nucs.examples.queens.queens_problem import QueensProblem
    from nucs.examples.schur_lemma.schur_lemma_problem import SchurLemmaProblem
    from nucs.examples.tsp.tsp_problem import TSPProblem
    from nucs.problems.circuit_problem import CircuitProblem
    from nucs.problems.latin_square_problem import LatinSquareProblem, LatinSquareRCProblem
    from nucs.examples.bibd.bibd_problem import BIBDProblem
    from nucs.examples.quasigroup.quasigroup_problem import Quasigroup5Problem, QuasigroupProblem
    from nucs.examples.sports_tournament_scheduling.sports_tournament_scheduling_problem import SportsTournamentSchedulingProblem
    from nucs.examples.sudoku.sudoku_problem import SudokuProblem

    report = ctx["report"]
    rng = random.Random(ctx["seed"] + 2001)
    thorough = ctx["tier"] == "thorough"
    viol, corr = [], []
    import regress
    for name, r in regress.run(["golomb_own_consistency_enumeration", "golomb_two_marks_symmetry_breaking", "golomb_own_consistency_loses_rulers"]).items():
        report.cov["evaluations"] += 1
        report.count("corpus", name)
        if not r["ok"]:
            viol.append({"kind": "corpus", "case": name, "detail": r["detail"]})
    inst = []  # (name, args for the Lean example, python problem, validator, expected count or None, kind)
    for n in ([4, 5, 6] if not thorough else [1, 2, 3, 4, 5, 6, 7, 8]):
        inst.append(("queens", [n], QueensProblem(n), lambda s, n=n: v_queens(n, s), KNOWN["queens"].get(n)))
    for n in ([2, 3] if not thorough else [1, 2, 3, 4]):
        inst.append(("latin_square", [n], LatinSquareProblem(list(range(n))), lambda s, n=n: v_latin(n, s), KNOWN["latin_square"].get(n)))
    for n in ([4, 5, 7] if not thorough else [4, 5, 6, 7, 8, 10]):
        inst.append(("magic_sequence", [n], MagicSequenceProblem(n), lambda s, n=n: v_magic_sequence(n, s), KNOWN["magic_sequence"].get(n)))
    inst.append(("magic_square", [3, 0], MagicSquareProblem(3, False), lambda s: v_magic_square(3, s), 8))
    inst.append(("magic_square", [3, 1], MagicSquareProblem(3, True), lambda s: v_magic_square(3, s), 1))
    for n in ([4, 6] if not thorough else [3, 4, 5, 6, 7, 8]):
        inst.append(("schur", [n, 0], SchurLemmaProblem(n, False), lambda s, n=n: v_schur(n, s), None))
        inst.append(("schur", [n, 1], SchurLemmaProblem(n, True), lambda s, n=n: v_schur(n, s), None))
    for n in ([3, 4, 5] if not thorough else [2, 3, 4, 5, 6]):
        inst.append(("circuit", [n], CircuitProblem(n), lambda s, n=n: v_circuit(n, s), KNOWN["circuit"].get(n)))
    # quasigroups (idempotent Latin squares with their two dual models; QG5), both settings of symmetry breaking
    for n in ([2, 3, 4, 5] if not thorough else [1, 2, 3, 4, 5]):
        for sb in (0, 1):
            inst.append(("quasigroup", [n, sb], QuasigroupProblem(n, bool(sb)), lambda s, n=n: v_quasigroup(n, s), None))
    for n in ([3, 5] if not thorough else [3, 4, 5, 6]):
        for sb in (0, 1):
            inst.append(("quasigroup5", [n, sb], Quasigroup5Problem(n, bool(sb)), lambda s, n=n: v_quasigroup(n, s, True), None))
    for n in ([2, 3] if not thorough else [1, 2, 3, 4]):
        inst.append(("latin_square_rc", [n], LatinSquareRCProblem(n), lambda s, n=n: v_latin(n, s), KNOWN["latin_square"].get(n)))
    for n in ([2, 4] if not thorough else [2, 4, 6]):
        for sb in (0, 1):
            if n == 6 and sb == 0:
                continue  # too many schedules to enumerate
            inst.append(("sports_tournament_scheduling", [n, sb], SportsTournamentSchedulingProblem(n, bool(sb)), lambda s, n=n: v_sports(n, s), None))
    for (v_, b_, r_, k_, l_) in ([(3, 3, 2, 2, 1), (4, 6, 3, 2, 1)] if not thorough else [(3, 3, 2, 2, 1), (4, 6, 3, 2, 1), (6, 10, 5, 3, 2), (7, 7, 3, 3, 1)]):
        for sb in (0, 1):
            if sb == 0 and v_ * b_ > 24:
                continue  # without symmetry breaking every row/column permutation is a solution: far too many to enumerate
            inst.append(("bibd", [v_, b_, r_, k_, l_, sb], BIBDProblem(v_, b_, r_, k_, l_, bool(sb)),
                         lambda s, a=(v_, b_, r_, k_, l_): v_bibd(*a, s), None))
    # parameter tuples that violate b*k = v*r: no design exists, the model must have no solution (and may not invent one)
    for (v_, b_, r_, k_, l_) in ([(2, 3, 2, 1, 1), (3, 4, 2, 2, 1)] if not thorough else [(2, 3, 2, 1, 1), (3, 4, 2, 2, 1), (3, 2, 2, 2, 1), (4, 4, 3, 2, 1), (2, 4, 3, 1, 2)]):
        for sb in (0, 1):
            inst.append(("bibd", [v_, b_, r_, k_, l_, sb], BIBDProblem(v_, b_, r_, k_, l_, bool(sb)),
                         lambda s, a=(v_, b_, r_, k_, l_): v_bibd(*a, s), 0 if b_ * k_ != v_ * r_ else None))
    inst.append(("sudoku", [x for r_ in SUDOKU_EASY for x in r_], SudokuProblem(SUDOKU_EASY), lambda s: v_sudoku(SUDOKU_EASY, s), 1))
    if thorough:
        inst.append(("sudoku", [x for r_ in SUDOKU for x in r_], SudokuProblem(SUDOKU), lambda s: v_sudoku(SUDOKU, s), 1))
    inst.append(("magic_square", [4, 1], MagicSquareProblem(4, True), None, None))   # constructor only (880 squares: thorough tier of C02)
    for n in ([2, 3, 5] if not thorough else [2, 3, 4, 5, 6, 7]):
        for sb in (0, 1):
            inst.append(("golomb", [n, sb], GolombProblem(n, bool(sb)), None, None))
    for n in (6, 8):
        inst.append(("sports_tournament_scheduling", [n, 1], SportsTournamentSchedulingProblem(n, True), None, None))
    for n in (6, 7, 8):  # larger quasigroups: constructor comparison only (their enumeration is far too long under interpretation)
        for sb in (0, 1):
            inst.append(("quasigroup", [n, sb], QuasigroupProblem(n, bool(sb)), None, None))
            inst.append(("quasigroup5", [n, sb], Quasigroup5Problem(n, bool(sb)), None, None))
    # the Lean model of every instance must be the arrays the Python constructor posts (the translation tie for models)
    reqs, cases = [], []
    for name, args, p, val, exp in inst:
        prob = from_problem(p)
        reqs.append((f"example {name} {nv.enc_ints(args)}", posted_dump(prob), name, args))
        if val is None:
            continue  # constructor comparison only
        heavy = name in ("quasigroup", "quasigroup5") and args[0] >= 5
        for cons in ((0,) if heavy else (0, 1)):
            for (vh, dh) in (((0, 0),) if heavy else (((0, 0), (1, 3)) if not thorough else ((0, 0), (1, 3), (2, 1), (1, 2)))):
                cases.append(({"op": "solve", "problem": prob.to_json(), "cfg": ce.cfg_json(nv.Cfg(cons=cons, varh=vh, domh=dh))}, name, args, val, exp))
    for extra_name, extra_args, extra_p in (("alpha", [], AlphaProblem()), ("donald", [], DonaldProblem()),
                                             ("knapsack", [3, 4, 5, 6, 3, 2, 4, 6], KnapsackProblem([4, 5, 6], [3, 2, 4], 6)),
                                             ("golomb", [4, 1], GolombProblem(4, True)), ("tsp", [3, 0, 2, 5, 2, 0, 4, 5, 4, 0], TSPProblem([[0, 2, 5], [2, 0, 4], [5, 4, 0]]))):
        reqs.append((f"example {extra_name} {nv.enc_ints(extra_args)}", posted_dump(from_problem(extra_p)), extra_name, extra_args))
    # parameterised models on random parameters (asymmetric TSP matrices, knapsacks): the constructor's arrays vs the Lean model,
    # and the optimum of the real solver vs brute force
    for _ in range(6 * nv.boost("examples") if not thorough else 60):
        n = rng.randint(3, 5)
        rows = [[0 if i == j else rng.randint(1, 20) for j in range(n)] for i in range(n)]
        tp = TSPProblem(rows)
        tprob = from_problem(tp)
        reqs.append((f"example tsp {nv.enc_ints([n] + [x for r in rows for x in r])}", posted_dump(tprob), "tsp", rows))
        total = tp.shr_domain_nb - 1 if hasattr(tp, "shr_domain_nb") else len(tprob.shr) - 1
        r = nv.impl_optimize(tprob, nv.Cfg(decision=list(range(n))), len(tprob.idx) - 1, True)
        best = None
        for perm in itertools.permutations(range(1, n)):
            tour = (0,) + perm
            c = sum(rows[tour[k]][tour[(k + 1) % n]] for k in range(n))
            best = c if best is None or c < best else best
        report.cov["evaluations"] += 1
        report.nontrivial(("tsp", str(rows)))
        got = None if r[0] != "ok" or r[1] is None else r[1][len(tprob.idx) - 1]
        if r[0] != "ok" or got != best:
            viol.append({"kind": "example", "model": "tsp", "args": rows, "detail": f"TSP optimum returned {got} ({r[0]}), brute force over all tours gives {best}"})
        elif r[1] is not None and not v_circuit(n, r[1][:n]):
            viol.append({"kind": "example", "model": "tsp", "args": rows, "detail": f"the returned successors {r[1][:n]} are not a Hamiltonian circuit"})
        k = rng.randint(2, 5)
        w = [rng.randint(1, 9) for _ in range(k)]
        vol = [rng.randint(1, 6) for _ in range(k)]
        cap = rng.randint(1, sum(vol))
        # boundary variants of the same instance: an item that fills the knapsack exactly, one that just does not fit, everything fits,
        # a worthless item, two items that fill it exactly together
        i0 = rng.randrange(k)
        heavy = max(range(k), key=lambda i: w[i])
        variants = [(w, vol, cap), (w, vol, vol[i0]), (w, vol, vol[heavy]), (w, vol, max(1, vol[heavy] - 1)), (w, vol, sum(vol)),
                    ([0 if i == i0 else x for i, x in enumerate(w)], vol, cap), (w, vol, vol[i0] + vol[(i0 + 1) % k])]
        for (w_, vol_, cap_) in variants:
            kp2 = KnapsackProblem(w_, vol_, cap_)
            kprob = from_problem(kp2)
            reqs.append((f"example knapsack {nv.enc_ints([k] + w_ + vol_ + [cap_])}", posted_dump(kprob), "knapsack", [w_, vol_, cap_]))
            r = nv.impl_optimize(kprob, nv.Cfg(), kp2.weight, False)
            bestk = max(sum(wi for wi, p_ in zip(w_, pick) if p_) for pick in itertools.product((0, 1), repeat=k) if sum(vi for vi, p_ in zip(vol_, pick) if p_) <= cap_)
            report.cov["evaluations"] += 1
            report.nontrivial(("knapsack", str((w_, vol_, cap_))))
            if r[0] != "ok" or r[1] is None or r[1][kp2.weight] != bestk:
                viol.append({"kind": "example", "model": "knapsack", "args": [w_, vol_, cap_], "detail": f"optimum {r[1][kp2.weight] if r[0] == 'ok' and r[1] is not None else None} != brute force {bestk}"})
            elif sum(vi * x for vi, x in zip(vol_, r[1][:k])) > cap_ or sum(wi * x for wi, x in zip(w_, r[1][:k])) != r[1][kp2.weight]:
                viol.append({"kind": "example", "model": "knapsack", "args": [w_, vol_, cap_], "detail": f"the returned selection {r[1]} exceeds the capacity or does not have the reported weight"})
    answers = nv.Model().ask([q for q, _, _, _ in reqs])
    for (q, impl, name, args), ans in zip(reqs, answers):
        report.cov["evaluations"] += 1
        report.count("model_compared", name)
        if impl != ans:
            corr.append({"op": "example", "model": name, "args": args, "implementation": impl[:300], "lean": ans[:300]})
    # generous per-call limit: these are whole enumerations in interpreted mode; a loaded machine must not turn into an alarm
    import os
    os.environ["NUCS_VERIF_CALL_TIMEOUT"] = "280"
    res = ce.run_impl([c for c, *_ in cases], jit=False, tag="C20", case_timeout=300)
    os.environ["NUCS_VERIF_CALL_TIMEOUT"] = "15"
    ans = nv.Model().ask(ce.model_lines([c for c, *_ in cases if oracle.box_size(nv.Prob.from_json(c["problem"]).shr) <= 10 ** 9][:0]))  # whole-run model comparison is C01/C02's job
    counts = {}
    for (c, name, args, val, exp), r in zip(cases, res):
        report.cov["evaluations"] += 1
        key = (name, tuple(args))
        replay = {"model": name, "args": args, "cfg": c["cfg"]}
        if r[0] == "skipped":
            report.count("not_evaluated", name)
            continue
        if r[0] != "ok":
            viol.append(dict(replay, kind="example", detail=f"{r[0]}: {r[1]}"))
            continue
        report.nontrivial((name, tuple(args), str(c["cfg"])))
        bad = [s for s in r[1] if not val(s)]
        if bad:
            viol.append(dict(replay, kind="example", detail=f"invalid object produced: {bad[0]}"))
        if len(set(map(tuple, r[1]))) != len(r[1]):
            viol.append(dict(replay, kind="example", detail="a solution was produced twice"))
        if exp is not None and len(r[1]) != exp:
            viol.append(dict(replay, kind="example", detail=f"{len(r[1])} solutions, the known count is {exp}"))
        counts.setdefault(key, set()).add(len(r[1]))
        report.sample({"model": name, "args": args, "solutions": len(r[1]), "known": exp}, cap=8)
    for key, cs in counts.items():
        if len(cs) > 1:
            viol.append({"kind": "example", "model": key[0], "args": list(key[1]), "detail": f"solution count depends on the configuration: {sorted(cs)}"})
    # symmetry breaking preserves satisfiability (every model with a flag) and can only remove solutions
    for (name, args), cs in list(counts.items()):
        if args and args[-1] == 0 and (name, args[:-1] + (1,)) in counts:
            a, b = cs, counts[(name, args[:-1] + (1,))]
            if (min(a) > 0) != (min(b) > 0):
                viol.append({"kind": "example", "model": name, "args": list(args[:-1]), "detail": f"symmetry breaking changed satisfiability: {sorted(a)} solutions without, {sorted(b)} with"})
            if min(b) > min(a):
                viol.append({"kind": "example", "model": name, "args": list(args[:-1]), "detail": f"symmetry breaking ADDED solutions: {sorted(a)} without, {sorted(b)} with"})
    # constructed objects beyond the reach of search must be ACCEPTED by the shipped models (harness/accept.py).  A group is a
    # set of symmetric images of one object: WITHOUT symmetry breaking every image must be accepted; WITH symmetry breaking at
    # least one image must be (the flag may only choose representatives: "preserving satisfiability and the optimum")
    import accept
    os_ = __import__("os")
    os_.environ["NUCS_VERIF_CALL_TIMEOUT"] = "120"
    groups = []  # (model, args, what, constructor, [vectors], nvars, need_all)
    for n_, marks_, what in accept.golomb_objects():
        if n_ > 10 and what != "literature optimum":
            continue
        imgs = [accept.golomb_vector(m_) for m_ in (marks_, [marks_[-1] - x for x in reversed(marks_)]) if v_golomb(m_, m_[-1])]
        if len(imgs) == 2:
            for sb in (False, True):
                groups.append(("golomb", [n_, int(sb)], what, lambda n_=n_, sb=sb: GolombProblem(n_, sb), imgs, len(imgs[0]), not sb))
    for n_ in ((13, 16) if not thorough else (13, 16, 19, 25, 31)):
        q = accept.queens_object(n_)
        if q is not None and v_queens(n_, q):
            groups.append(("queens", [n_], "explicit placement", lambda n_=n_: QueensProblem(n_),
                           [q + [q[i] + i for i in range(n_)] + [q[i] - i for i in range(n_)]], n_, True))
    for n_ in ((5, 7) if not thorough else (5, 7, 9, 11)):
        imgs = [[x for row in sq for x in row] for sq in accept.dihedral(accept.siamese(n_))]
        imgs = [f for f in imgs if v_magic_square(n_, f)]
        if len(imgs) == 8:
            for sb in (False, True):
                groups.append(("magic_square", [n_, int(sb)], "Siamese construction and its 8 dihedral images", lambda n_=n_, sb=sb: MagicSquareProblem(n_, sb), imgs, n_ * n_, not sb))
    for n_ in ((8,) if not thorough else (8, 11, 14)):
        flat = [(i + j) % n_ for i in range(n_) for j in range(n_)]
        if v_latin(n_, flat):
            groups.append(("latin_square", [n_], "cyclic square", lambda n_=n_: LatinSquareProblem(list(range(n_))), [flat], n_ * n_, True))
    for n_ in ((9, 15) if not thorough else (9, 15, 30, 60)):
        ms = accept.magic_sequence_object(n_)
        if ms is not None and v_magic_sequence(n_, ms):
            groups.append(("magic_sequence", [n_], "closed form", lambda n_=n_: MagicSequenceProblem(n_), [ms], n_, True))
    for n_ in (13, 9):
        imgs = []
        for perm in itertools.permutations(range(3)):
            flat = []
            for x in range(1, n_ + 1):
                c = perm[[x in s_ for s_ in accept.SCHUR13].index(True)]
                flat += [1 if k_ == c else 0 for k_ in range(3)]
            if v_schur(n_, flat):
                imgs.append(flat)
        if len(imgs) == 6:
            for sb in (False, True):
                groups.append(("schur_lemma", [n_, int(sb)], f"a sum-free 3-colouring of 1..{n_} under the 6 colour permutations", lambda n_=n_, sb=sb: SchurLemmaProblem(n_, sb), imgs, 3 * n_, not sb))
    fano = [1 if i in accept.FANO[j] else 0 for i in range(7) for j in range(7)]
    if v_bibd(7, 7, 3, 3, 1, fano):
        conj = [fano[i1 * 7 + bb] & fano[i2 * 7 + bb] for i1 in range(6) for i2 in range(i1 + 1, 7) for bb in range(7)]
        groups.append(("bibd", [7, 7, 3, 3, 1, 0], "Fano plane", lambda: BIBDProblem(7, 7, 3, 3, 1, False), [fano + conj], 49, True))
    for name_, args_, what, mk, vecs, nvars, need_all in groups:
        whys = []
        for vec in vecs:
            try:
                whys.append(accept.accepts(from_problem(mk()), vec, nvars))
            except Exception as e:  # noqa: BLE001
                whys.append(f"{type(e).__name__}: {e}")
            report.cov["evaluations"] += 1
        report.count("constructed_objects", name_)
        report.nontrivial(("accept", name_, str(args_), what))
        rejected = [(vec[:nvars], w_) for vec, w_ in zip(vecs, whys) if w_ is not None]
        if (need_all and rejected) or (not need_all and len(rejected) == len(vecs)):
            viol.append({"kind": "example", "model": name_, "args": args_, "object": rejected[0][0],
                         "detail": f"a valid {name_} object ({what}) is rejected by the shipped model" + ("" if need_all else " in EVERY symmetric image") + f": {rejected[0][1]}"})
    os_.environ["NUCS_VERIF_CALL_TIMEOUT"] = "15"
    # optimisation examples: knapsack and Golomb against brute force / literature
    import nucs.examples.golomb.golomb_problem as G
    for marks in ([4, 5] if not thorough else [4, 5, 6, 7]):
        gp = GolombProblem(marks, True)
        prob = from_problem(gp)
        # plain bound consistency (the example's own consistency algorithm is an optimisation of it)
        r = nv.impl_optimize(prob, nv.Cfg(decision=list(range(marks - 1))), gp.length_idx, True)
        report.cov["evaluations"] += 1
        if r[0] != "ok" or r[1] is None or r[1][gp.length_idx] != KNOWN["golomb"][marks]:
            viol.append({"kind": "example", "model": "golomb", "args": [marks], "detail": f"optimal length {r[1][gp.length_idx] if r[0] == 'ok' and r[1] is not None else None} != known {KNOWN['golomb'][marks]} ({r[0]})"})
    # the Golomb model ships its OWN consistency algorithm (golomb_consistency_algorithm: a redundant strengthening of bound
    # consistency, registered by the example's main and by the tests): run as the example does; the optimum must be the known one,
    # the returned vector a ruler (independent validator), and for small sizes the solution SET under it must equal the set under
    # plain bound consistency (a strengthening may not lose or invent solutions)
    from nucs.solvers.backtrack_solver import BacktrackSolver
    from nucs.solvers.consistency_algorithms import register_consistency_algorithm
    gidx = register_consistency_algorithm(G.golomb_consistency_algorithm)
    for marks in ([4, 5, 6] if not thorough else [4, 5, 6, 7, 8]):
        for sb in (True, False):
            gp = GolombProblem(marks, sb)
            try:
                with nv.guard(250):
                    sol = BacktrackSolver(gp, consistency_alg_idx=gidx, log_level="ERROR").minimize(gp.length_idx)
            except Exception as e:  # noqa: BLE001
                viol.append({"kind": "example", "model": "golomb", "args": [marks, int(sb)], "detail": f"own consistency algorithm: {type(e).__name__}: {e}"})
                continue
            report.cov["evaluations"] += 1
            report.count("golomb_own_consistency", f"{marks}:{int(sb)}")
            if sol is None or int(sol[gp.length_idx]) != KNOWN["golomb"][marks]:
                viol.append({"kind": "example", "model": "golomb", "args": [marks, int(sb)],
                             "detail": f"with the model's own consistency algorithm the optimal length is {None if sol is None else int(sol[gp.length_idx])}, known {KNOWN['golomb'][marks]}"})
            elif not v_golomb([0] + [int(x) for x in sol[: marks - 1]], KNOWN["golomb"][marks]):
                viol.append({"kind": "example", "model": "golomb", "args": [marks, int(sb)], "detail": f"the returned marks {[int(x) for x in sol[: marks - 1]]} are not a Golomb ruler of that length"})
        if marks <= (5 if thorough else 4):
            sets = []
            for idx in (gidx, 0):
                gp = GolombProblem(marks, True)
                sets.append(sorted(tuple(int(x) for x in s_) for s_ in BacktrackSolver(gp, consistency_alg_idx=idx, log_level="ERROR").solve()))
            report.cov["evaluations"] += 2
            if sets[0] != sets[1]:
                viol.append({"kind": "example", "model": "golomb", "args": [marks, 1],
                             "detail": f"the model's own consistency algorithm changes the solution set: {len(sets[0])} vs {len(sets[1])} under plain bound consistency"})
    # random sub-boxes of the Golomb model (some first marks given, the length capped — the states minimisation itself creates):
    # the model's own consistency algorithm must enumerate exactly the rulers plain bound consistency enumerates (D17)
    for _ in range(4 if not thorough else 16):
        marks = rng.choice([5, 6, 6])
        sbf = rng.random() < 0.5
        capl = rng.randint({5: 11, 6: 17}[marks], {5: 28, 6: 30}[marks])
        pre = [0]
        for _k in range(rng.randint(0, 3)):
            pre.append(pre[-1] + rng.randint(1, 8))
        dd = [b_ - a_ for a_, b_ in itertools.combinations(pre, 2)]
        if len(set(dd)) != len(dd):
            continue
        sets = []
        try:
            with nv.guard(250):
                for idx in (gidx, 0):
                    gp = GolombProblem(marks, sbf)
                    for j_ in range(1, len(pre)):
                        gp.shr_domains_lst[G.index(marks, 0, j_)] = [pre[j_], pre[j_]]
                    lo_, hi_ = gp.shr_domains_lst[gp.length_idx]
                    gp.shr_domains_lst[gp.length_idx] = [lo_, min(hi_, capl)]
                    sets.append(sorted(tuple(int(x) for x in s_[: marks - 1]) for s_ in BacktrackSolver(gp, consistency_alg_idx=idx, log_level="ERROR").solve()))
        except Exception as e:  # noqa: BLE001
            viol.append({"kind": "example", "model": "golomb", "args": [marks, int(sbf), capl, pre], "detail": f"sub-box enumeration: {type(e).__name__}: {e}"})
            continue
        report.cov["evaluations"] += 2
        report.count("golomb_sub_boxes", f"{marks}:{len(sets[1])}")
        bad_r = [r_ for s2 in sets for r_ in s2 if not v_golomb([0] + list(r_), r_[-1])]
        if sets[0] != sets[1] or bad_r:
            lost = [r_ for r_ in sets[1] if r_ not in sets[0]][:3]
            viol.append({"kind": "example", "model": "golomb", "args": [marks, int(sbf)], "given_marks": pre, "length_cap": capl,
                         "detail": f"the model's own consistency algorithm enumerates {len(sets[0])} rulers, plain bound consistency {len(sets[1])}; lost: {lost}; invalid: {bad_r[:2]}"})
    # LatinSquareProblem WITH GIVENS (the reusable model behind Sudoku): zero- and one-based colours, every kind of wildcard; the
    # solutions must be exactly the latin squares of that order that agree with the givens (brute force over all squares)
    def all_latin(n_):
        rows = list(itertools.permutations(range(n_)))
        out = []
        def rec(sq):
            if len(sq) == n_:
                out.append([x for r_ in sq for x in r_])
                return
            for r_ in rows:
                if all(r_[j] != p_[j] for p_ in sq for j in range(n_)):
                    rec(sq + [r_])
        rec([])
        return out
    for _ in range(4 if not thorough else 40):
        n_ = rng.choice([3, 3, 4])
        base = rng.choice([0, 0, 1])
        squares = all_latin(n_)
        hidden = rng.choice(squares)
        reveal = [rng.random() < (0.45 if n_ == 4 else 0.3) for _k in range(n_ * n_)]
        if base == 0 and not any(reveal[k_] and hidden[k_] == 0 for k_ in range(n_ * n_)):
            k0 = hidden.index(0)
            reveal[k0] = True  # a given of colour 0 (a falsy value) must be honoured like any other
        wild = rng.choice([-1, n_ + base, None] if base == 0 else [0, -1, n_ + 1, None])
        giv = [[(hidden[i * n_ + j] + base) if reveal[i * n_ + j] else wild for j in range(n_)] for i in range(n_)]
        try:
            lp = LatinSquareProblem(list(range(base, n_ + base)), giv)
            r = nv.impl_solve(from_problem(lp), nv.Cfg(cons=rng.choice([0, 1]), domh=rng.choice([0, 1, 3])))
        except Exception as e:  # noqa: BLE001
            viol.append({"kind": "example", "model": "latin_square", "args": [n_, base], "givens": giv, "detail": f"{type(e).__name__}: {e}"})
            continue
        report.cov["evaluations"] += 1
        report.count("latin_square_with_givens", f"{n_}:{base}")
        want = sorted(tuple(x + base for x in sq) for sq in squares if all(not reveal[k_] or sq[k_] == hidden[k_] for k_ in range(n_ * n_)))
        got = sorted(tuple(s_[: n_ * n_]) for s_ in r[1]) if r[0] == "ok" else None
        if got != want:
            viol.append({"kind": "example", "model": "latin_square", "args": [n_, base], "givens": giv,
                         "detail": f"LatinSquareProblem with givens: {None if got is None else len(got)} solutions ({r[0]}), {len(want)} latin squares agree with the givens"
                                   + ("" if got is None else f"; not expected: {[g_ for g_ in got if g_ not in want][:1]}; missing: {[w_ for w_ in want if w_ not in got][:1]}")})
    # whole runs of the Golomb example WITH ITS OWN consistency algorithm against the model's search with ConsAlg.golomb (the
    # algorithm is registered above): solution sequence / optimum and the 13 statistics must be equal
    gruns = []
    os_g = __import__("os")
    os_g.environ["NUCS_VERIF_CALL_TIMEOUT"] = "280"  # whole optimisations under interpretation: a loaded machine must not turn into an alarm
    for marks, sbf, op in ((4, True, "opt"), (4, False, "solve"), (5, True, "opt"), (5, True, "solve5")) + (((6, True, "opt"), (5, False, "opt")) if thorough else ()):
        gp = GolombProblem(marks, sbf)
        gprob = from_problem(gp)
        gcfg = nv.Cfg(cons=2)
        if op == "opt":
            r = nv.impl_optimize(gprob, gcfg, gp.length_idx, True)
            line = f"opt {gprob.enc()} {gcfg.enc(gprob)} {gp.length_idx} min"
            impl = f"{'none' if r[1] is None else nv.enc_ints(r[1])} {nv.enc_ints(r[2])}" if r[0] == "ok" else f"{r[0]} {r[1]}"
        else:
            lim = 40 if op == "solve5" else 1000000
            r = nv.impl_solve(gprob, gcfg, lim)
            line = f"solve {gprob.enc()} {gcfg.enc(gprob)} {lim}"
            impl = f"{';'.join(nv.enc_ints(s_) for s_ in r[1]) if r[1] else '-'} {nv.enc_ints(r[2])}" if r[0] == "ok" else f"{r[0]} {r[1]}"
        gruns.append((line, impl, {"op": "golomb-own-run", "marks": marks, "symmetry_breaking": sbf, "kind": op}))
        report.cov["evaluations"] += 1
        report.count("golomb_own_whole_runs", f"{marks}:{op}")
    os_g.environ["NUCS_VERIF_CALL_TIMEOUT"] = "15"
    for (line, impl, rp), ans_ in zip(gruns, nv.Model().ask([l_ for l_, _, _ in gruns])):
        if impl.startswith("hang"):
            continue  # no answer within the generous limit: nothing to compare (never an alarm)
        if impl != ans_:
            corr.append(dict(rp, implementation=impl[:300], model=ans_[:300]))
    # the Golomb model's own consistency algorithm against its Lean model golombPrune (C20_golomb_prune_sound is about that model)
    import golomb_corr
    gc, gv = golomb_corr.run(report, rng, 120 * nv.boost("examples") if not thorough else 3000)
    corr += gc
    viol += gv
    w, v, cap = [4, 5, 6, 7], [3, 2, 4, 5], 8
    kp = KnapsackProblem(w, v, cap)
    r = nv.impl_optimize(from_problem(kp), nv.Cfg(), kp.weight, False)
    best = max(sum(wi for wi, p in zip(w, pick) if p) for pick in itertools.product((0, 1), repeat=4) if sum(vi for vi, p in zip(v, pick) if p) <= cap)
    report.cov["evaluations"] += 1
    if r[0] != "ok" or r[1] is None or r[1][kp.weight] != best:
        viol.append({"kind": "example", "model": "knapsack", "detail": f"optimum {r[1]} != brute force {best}"})
    report.cov["traces_validated_against_impl"] = len(reqs)
    report.cov["rule"] = ("for each shipped model and instance size in reach: (a) the arrays the Python constructor posts are compared, constraint by "
                          "constraint, with the Lean model `exampleByName` about which `Sol ↔ Valid` is proved (the translation tie for models); (b) the "
                          "real solver (BC and shaving, several heuristic pairs) enumerates: every solution must pass an independent definition-level "
                          "validator, no duplicates, the count must equal the literature value (OEIS A000170, A002860, (n-1)!, magic squares, A003022) "
                          "and must not depend on the configuration; symmetry breaking preserves satisfiability; optima equal brute force/literature")
    return {"corr_diffs": corr, "violations": viol, "component": "exampleByName (NucsModel/Examples.lean) vs the shipped model constructors",
            "partial": ["Sol ↔ Valid is proved for all 15 shipped models and every instance parameter; it is about the Lean model of each constructor, which is compared with the arrays the Python constructor posts on the instances listed under distribution.model_compared",
                        "literature counts and preservation of satisfiability/optimum by symmetry breaking are tested, not proved (the kernel cannot enumerate 8-queens)"]}
