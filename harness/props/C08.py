from props._walk import run_walks
from props._local import known_witnesses


def run(ctx):
    corr, violations = run_walks(ctx, {"shrink", "queue", "fixpoint", "entailed"}, {"bc"}, 250, 4000,
                                 ["self_wake_skipped", "duplicate_shared_domain"])
    ctx["report"].cov["rule"] = (
        "random walks of the real engine over generated problems (all constraint types, shared domains with offsets, a "
        "shared domain several times in one constraint): every propagation pass (root, after a branch, after a backtrack) is "
        "replayed on the Lean model from the same snapshot (domains, enabled flags, queue) and must give the same status, "
        "domains, flags, queue and statistics; independently the result of the real pass is checked: subset, non-empty, empty "
        "queue, every enabled constraint re-executed on the result does not fail and (except no_sub_cycle) changes nothing; "
        "non-trivial = the pass prunes or fails")
    return {
        "known": known_witnesses(ctx, "C08"),
        "corr_diffs": corr, "violations": violations, "component": "bcPass (NucsModel/Engine/Core.lean) vs bound_consistency_algorithm",
        "partial": ["(c) greatest common fixpoint for exact constraints is stated (C08_greatest_full), not proved yet",
                    "TrigOk is proved for the algorithms listed in NucsProofs/Engine/C08Local.lean (C08_trig_unproved lists the rest)"],
        "hypotheses": ["C08_pass assumes ProbOk: every posted algorithm has proved local contracts (provenAlgs); for alldifferent/gcc/others not yet proved the conclusion is conditional on their stated contracts"],
        "assumptions": ["interpreted mode for step-level interposition; compiled mode is compared on whole runs (C15)"],
    }
