from props._walk import run_walks
from props._local import known_witnesses


def run(ctx):
    corr, violations = run_walks(ctx, {"shrink", "queue", "fixpoint", "entailed"}, {"bc"}, 250, 15000,
                                 ["self_wake_skipped", "duplicate_shared_domain"])
    # a user-registered constraint woken by instantiation only (harness/ground_watch.py): every GROUND announcement counts
    import random as _random
    import ground_watch
    import nv as _nv
    violations += ground_watch.run(ctx["report"], _random.Random(ctx["seed"] + 808), (150 * _nv.boost("engine")) if ctx["tier"] == "quick" else 3000, (0,))
    import trig_sweep
    d, v = trig_sweep.sweep(ctx, ctx["report"])
    corr += d
    violations += v
    ctx["report"].cov["rule"] = (
        "(d) trigger sufficiency evaluated on the real code: for sampled calls of every algorithm, every sub-box of the result "
        "that differs from the input by UNWATCHED events only (real get_triggers_*) must be a fixpoint of the real call; declared "
        "masks compared with the model's maskAlg.  "
        "random walks of the real engine over generated problems (all constraint types, shared domains with offsets, a "
        "shared domain several times in one constraint): every propagation pass (root, after a branch, after a backtrack) is "
        "replayed on the Lean model from the same snapshot (domains, enabled flags, queue) and must give the same status, "
        "domains, flags, queue and statistics; independently the result of the real pass is checked: subset, non-empty, empty "
        "queue, every enabled constraint re-executed on the result does not fail and (except no_sub_cycle) changes nothing; "
        "non-trivial = the pass prunes or fails")
    return {
        "known": known_witnesses(ctx, "C08"),
        "corr_diffs": corr, "violations": violations, "component": "bcPass (NucsModel/Engine/Core.lean) vs bound_consistency_algorithm",
        "partial": ["for no_sub_cycle only the instantiated form of trigger sufficiency holds (TrigOkP); the full statement is false for the code: known finding K3"],
        "hypotheses": ["C08_pass assumes ProbOk (posted within contract); all 21 algorithms are in provenAlgs; C08_greatest additionally needs Exact, which is not proved for alldifferent and gcc"],
        "assumptions": ["interpreted mode for step-level interposition; compiled mode is compared on whole runs (C15)"],
    }
