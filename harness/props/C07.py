import gen
from props._local import run_local


def run(ctx):
    return run_local(ctx, "C07", {"entail"}, gen.ENTAIL_ALGS, [], "status of runAlg vs compute_domains_* for the algorithms that can answer entailed")
