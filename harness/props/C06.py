import gen
from props._local import run_local


def run(ctx):
    r = run_local(ctx, "C06", {"ground", "sound"}, gen.ALGS, ["affine_eq_ground", "affine_zero_coeffs", "no_sub_cycle_n2"],
                  "runAlg (NucsModel/Registry.lean) vs compute_domains_* on instantiated boxes and boxes collapsing to a point")
    r["partial"] = ["GroundOk is proved for all 21 algorithms (no_sub_cycle: on permutations); gcc with a zero capacity is known finding K1 (the code is wrong there; those inputs are excluded from the correspondence by predicate)"]
    return r
