import json
import os
import random
import subprocess
import sys

import gen
import nv
from props._local import run_local


def jit_ground(ctx):
    """instantiated tuples in COMPILED mode (harness/jit_ground.py): a defect that needs the absence of bounds checks to accept a
    violating tuple is invisible to the interpreted sweep"""
    import props_sweep

    rng = random.Random(ctx["seed"] + 606)
    per_alg = 250 * (nv.boost("engine") if any(f.startswith("propagators/") for f in nv.changed_files()) else 1) if ctx["tier"] == "quick" else 4000
    cases = []
    for alg in gen.ALGS:
        pts = []
        for ps, b in gen.prop_scope(alg):
            if all(d[0] == d[1] for d in b):
                pts.append((ps, [d[0] for d in b]))
        if len(pts) > per_alg:
            pts = rng.sample(pts, per_alg)
        for _ in range(per_alg // 2):
            ps, b = gen.prop_random(alg, rng)
            pts.append((ps, [rng.randint(d[0], d[1]) for d in b]))
        for _ in range(per_alg // 5):
            w = gen.prop_wide(alg, rng)
            if w is not None:
                pts.append((w[0], [rng.choice([d[0], d[1], rng.randint(d[0], d[1])]) for d in w[1]]))
        for ps, t in pts:
            if props_sweep.known_finding(alg, ps, [(x, x) for x in t]) is None:
                cases.append([alg, list(ps), list(t)])
    work = os.path.join(nv.VERIF, ".cache", "work")
    os.makedirs(work, exist_ok=True)
    base = os.path.join(work, f"C06j-{os.getpid()}")
    json.dump(cases, open(base + ".cases", "w"))
    try:
        r = subprocess.run([sys.executable, os.path.join(os.path.dirname(os.path.abspath(nv.__file__)), "jit_ground.py"), base + ".cases", base + ".out"],
                           capture_output=True, text=True, timeout=1200)
        viol = json.load(open(base + ".out")) if r.returncode == 0 and os.path.exists(base + ".out") else []
        if r.returncode != 0:
            ctx["report"].count("jit_ground_worker_failed", None, 1)
    except subprocess.TimeoutExpired:
        viol = []
        ctx["report"].count("jit_ground_worker_failed", None, 1)
    for ext in (".cases", ".out"):
        if os.path.exists(base + ext):
            os.remove(base + ext)
    ctx["report"].cov["evaluations"] += len(cases)
    ctx["report"].count("ground_tuples_compiled", None, len(cases))
    return viol


def run(ctx):
    r = run_local(ctx, "C06", {"ground", "sound"}, gen.ALGS, ["affine_eq_ground", "affine_zero_coeffs", "no_sub_cycle_n2"],
                  "runAlg (NucsModel/Registry.lean) vs compute_domains_* on instantiated boxes and boxes collapsing to a point")
    r["violations"] += jit_ground(ctx)
    r["partial"] = ["GroundOk is proved for all 21 algorithms (no_sub_cycle: on permutations); gcc with a zero capacity is known finding K1 (the code is wrong there; those inputs are excluded from the correspondence by predicate)"]
    return r
