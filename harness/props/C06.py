import gen
from props._local import run_local


def run(ctx):
    r = run_local(ctx, "C06", {"ground", "sound"}, gen.ALGS, ["affine_eq_ground", "affine_zero_coeffs", "no_sub_cycle_n2"],
                  "runAlg (NucsModel/Registry.lean) vs compute_domains_* on instantiated boxes and boxes collapsing to a point")
    r["partial"] = ["GroundOk proved for the algorithms listed under coverage.theorems; gcc with a zero capacity is a recorded known finding (K1)"]
    return r
