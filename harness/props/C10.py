import random

import nv
from props._solver import standard_run


def run(ctx):
    corr, viol = standard_run(ctx, "C10", {"enum", "opt", "stats", "term", "crash"}, 500, 30000, [], cons=1)
    # shaving vs plain bound consistency on the same problem and heuristics: same multiset, same optimum
    import corr_engine as ce
    rng = random.Random(ctx["seed"] + 991)
    cases = []
    for _ in range(80 * nv.boost("engine") if ctx["tier"] == "quick" else 2000):
        p, theme = ce.gen_problem(rng)
        cfg = ce.gen_cfg(rng, p, cons=0)
        j0 = ce.cfg_json(cfg)
        j1 = dict(j0, cons=1)
        cases.append({"op": "solve", "problem": p.to_json(), "cfg": j0})
        cases.append({"op": "solve", "problem": p.to_json(), "cfg": j1})
    res = ce.run_impl(cases, jit=False, tag="C10p")
    for i in range(0, len(cases), 2):
        a, b = res[i], res[i + 1]
        ctx["report"].cov["evaluations"] += 2
        if a[0] == "ok" and b[0] == "ok" and sorted(a[1]) != sorted(b[1]):
            viol.append({"kind": "shaving-vs-bc", "problem": cases[i]["problem"], "cfg": cases[i]["cfg"],
                         "detail": f"shaving enumerates {len(b[1])} solutions, bound consistency {len(a[1])}"})
        if a[0] != b[0]:
            viol.append({"kind": "shaving-vs-bc", "problem": cases[i]["problem"], "cfg": cases[i]["cfg"], "detail": f"outcomes differ: {a[0]} vs {b[0]}"})
    # a user-registered constraint woken by instantiation only (harness/ground_watch.py): a shave that leaves a single value must announce it
    import ground_watch
    viol += ground_watch.run(ctx["report"], random.Random(ctx["seed"] + 1010), (200 * nv.boost("engine")) if ctx["tier"] == "quick" else 4000, (1, 1, 0))
    return {"corr_diffs": corr, "violations": viol, "component": "shavingPass/shaveBound (NucsModel/Engine/Search.lean) vs shaving_consistency_algorithm"}
