import random

import nv


HANGS = [0]


def mp_case(prob, k, v, schedule_fn, mode, rng, die=None, timeouts=None):
    """watchdog around `_mp_case` (the real worker methods run in this process): a call that does not return is a
    non-termination witness; after three of them the remaining calls are skipped"""
    skipped = {"counts": [], "yielded": [], "best": None, "raised": False, "k": k, "hang": "skipped after repeated hangs"}
    if HANGS[0] >= 3:
        return "hang", "split 0:0 0:0 1 0", skipped
    try:
        with nv.guard(20):
            return _mp_case(prob, k, v, schedule_fn, mode, rng, die, timeouts)
    except nv.Hang as e:
        HANGS[0] += 1
        return "hang", "split 0:0 0:0 1 0", dict(skipped, hang=str(e))


def _mp_case(prob, k, v, schedule_fn, mode, rng, die=None, timeouts=None):
    """run the REAL MultiprocessingSolver parent on a scripted queue; returns (impl_line, model_request, info)"""
    import mpfake
    from nucs.solvers.multiprocessing_solver import MultiprocessingSolver

    p = prob.build()
    parts = p.split(k, v)
    kk = len(parts)
    script = mpfake.install(kk)
    if die:
        script.die_after = dict(die)
    solvers = [nv.Cfg().solver(q) for q in parts]
    ms = MultiprocessingSolver(solvers, log_level="ERROR")
    raised = False
    yielded, best = [], None
    # the workers run at start(); to know the message counts we need a first pass: run the workers on clones
    clones = [nv.Cfg().solver(q) for q in p.split(k, v)]
    counts = []
    streams = []
    for i, c in enumerate(clones):
        class _Q:
            def __init__(self):
                self.n = 0
                self.items = []

            def put(self, item):
                self.n += 1
                self.items.append((None if item[1] is None else [int(x) for x in item[1]], [int(x) for x in item[2]]))
        q = _Q()
        if mode == "solve":
            c.solve_and_queue(i, q)
        else:
            (c.minimize_and_queue if mode[0] == "min" else c.maximize_and_queue)(mode[1], i, q)
        counts.append(q.n if not die or i not in die else min(q.n, die[i]))
        streams.append(q.items)
    script.schedule = schedule_fn(counts)
    try:
        if mode == "solve":
            for s in ms.solve():
                yielded.append([int(x) for x in s])
        else:
            b = ms.minimize(mode[1]) if mode[0] == "min" else ms.maximize(mode[1])
            best = None if b is None else [int(x) for x in b]
    except RuntimeError:
        raised = True
    agg = "none"
    if not raised and all(s is not None for s in ms.statistics):
        d = ms.get_statistics()
        agg = nv.enc_ints([d[l] for l in nv.STAT_LABELS])
    ins = []
    for ev in script.delivered:
        if ev[0] == "t":
            ins.append("t=" + nv.enc_bools(ev[1]))
        else:
            ins.append(f"m={ev[1]}={'none' if ev[2] is None else nv.enc_ints(ev[2])}={nv.enc_ints(ev[3])}")
    mode_s = "solve" if mode == "solve" else f"{mode[0]}:{mode[1]}"
    req = f"mp {mode_s} {kk} {';'.join(ins) if ins else '-'}"
    sols = ";".join(nv.enc_ints(s) for s in yielded) if yielded else "-"
    impl = f"? {sols} {'none' if best is None else nv.enc_ints(best)} {1 if raised else 0} {agg}"
    part_shr = [[tuple(int(x) for x in d) for d in q.shr_domains_lst] for q in p.split(k, v)]
    return impl, req, {"counts": counts, "yielded": yielded, "best": best, "raised": raised, "k": kk, "streams": streams,
                       "part_shr": part_shr, "consumed": script.pos, "scheduled": len(script.schedule)}


def worker_stream_reqs(prob, mode, info):
    """the hypothesis of the end-to-end theorems (C11_end_to_end_solve / _optimize): worker i's stream is what the model's
    solveAll / optimize returns on the i-th part.  Returns [(model request, implementation line, description)]."""
    out = []
    cfg = nv.Cfg()
    for i, (shr, items) in enumerate(zip(info["part_shr"], info["streams"])):
        if not items or items[-1][0] is not None:
            continue
        part = nv.Prob(shr, prob.idx, prob.off, prob.props)
        sols = [it[0] for it in items[:-1]]
        fin = items[-1][1]
        if mode == "solve":
            req = f"solve {part.enc()} {cfg.enc(part)} 1000000"
            impl = f"{';'.join(nv.enc_ints(s_) for s_ in sols) if sols else '-'} {nv.enc_ints(fin)}"
        else:
            # the whole stream of improving solutions (NucsModel/Engine/OptTrace.lean: optimizeTrace)
            req = f"opttrace {part.enc()} {cfg.enc(part)} {mode[1]} {'min' if mode[0] == 'min' else 'max'}"
            impl = f"{';'.join(nv.enc_ints(s_) for s_ in sols) if sols else '-'} {nv.enc_ints(fin)}"
        out.append((req, impl, {"worker": i, "part": shr}))
    return out


REUSE = r'''
import os, sys, threading, time
sys.path.insert(0, %(repo)r)
import logging; logging.disable(logging.CRITICAL)
from nucs.problems.problem import Problem
from nucs.propagators.propagators import ALG_ALLDIFFERENT
from nucs.solvers.backtrack_solver import BacktrackSolver
from nucs.solvers.multiprocessing_solver import MultiprocessingSolver
def watchdog():
    print("hang"); sys.stdout.flush(); os._exit(0)
t = threading.Timer(%(deadline)d, watchdog); t.daemon = True; t.start()
p = Problem([(0, 3)] * 3)
p.add_propagator(([0, 1, 2], ALG_ALLDIFFERENT, []))
ref = sorted(tuple(int(x) for x in s) for s in BacktrackSolver(p, log_level="ERROR").solve())
ms = MultiprocessingSolver([BacktrackSolver(q, log_level="ERROR") for q in p.split(%(k)d, 0)], log_level="ERROR")
it = ms.solve()
first = [next(it) for _ in range(%(take)d)]
it.close()
time.sleep(1.5)          # the abandoned workers finish and post what they had left
got = sorted(tuple(int(x) for x in s) for s in ms.solve())
n = ms.get_statistics()["SOLVER_SOLUTION_NB"]
print("ok" if got == ref and n == len(ref) else f"bad {len(got)} of {len(ref)} solutions, SOLUTION_NB {n}")
sys.stdout.flush(); os._exit(0)
'''


def reuse_after_abandon(k, take, deadline=40):
    """REAL processes: an enumeration on a MultiprocessingSolver is abandoned after `take` solutions, then the same object
    enumerates again; the second enumeration must be the sequential solver's multiset"""
    import os
    import subprocess
    import sys

    env = dict(os.environ)
    env["NUMBA_DISABLE_JIT"] = "1"
    try:
        r = subprocess.run([sys.executable, "-c", REUSE % {"repo": nv.REPO, "k": k, "take": take, "deadline": deadline}],
                           capture_output=True, text=True, timeout=deadline + 30, env=env)
        return (r.stdout.strip().splitlines() or ["no-output: " + r.stderr[-200:]])[-1]
    except subprocess.TimeoutExpired:
        return "hang"


def compare(impl, ans):
    """the first field (running set) is internal to the model; after a raise the aggregated statistics are not
    observable (the call ended with an exception): compare the observable rest"""
    a, b = impl.split(" ")[1:], ans.split(" ")[1:]
    if len(a) == 4 and len(b) == 4 and a[2] == "1" and b[2] == "1":
        # the call ended with an exception: neither the best solution kept so far nor the statistics are returned to anybody
        return a[0] == b[0]
    return a == b


def run(ctx):
    nv.setup_env(jit=False)
    import corr_engine as ce
    import mpfake

    HANGS[0] = 0

    report = ctx["report"]
    rng = random.Random(ctx["seed"] + 1101)
    viol, corr, reqs = [], [], []
    sub_reqs = []
    n = 25 * nv.boost("mp") if ctx["tier"] == "quick" else 400
    per = 12 if ctx["tier"] == "quick" else 60
    done = 0
    while done < n:
        prob, theme = ce.gen_problem(rng)
        if theme == "circuit" and rng.random() < 0.5:
            continue
        seq = nv.impl_solve(prob, nv.Cfg())
        if seq[0] != "ok" or len(seq[1]) > 12:
            continue
        done += 1
        v = rng.randrange(len(prob.idx))
        k = rng.randint(1, 3)
        mode = "solve" if rng.random() < 0.6 else (rng.choice(["min", "max"]), rng.randrange(len(prob.idx)))
        # enumerate interleavings of the workers' streams
        def sched_all(counts):
            return counts
        impl0, req0, info0 = mp_case(prob, k, v, lambda c: [("M", i) for i in mpfake.interleavings(c, limit=1)[0]], mode, rng)
        if impl0 == "hang":
            if "skipped" not in str(info0.get("hang")):
                viol.append({"problem": prob.to_json(), "k": k, "v": v, "mode": mode, "kind": "mp-hang", "detail": "the multiprocessing call did not return: " + str(info0.get("hang"))})
            continue
        for q_, i_, d_ in worker_stream_reqs(prob, mode, info0):
            sub_reqs.append((q_, i_, dict({"problem": prob.to_json(), "k": k, "v": v, "mode": mode}, **d_)))
        ils = mpfake.interleavings(info0["counts"], limit=per, rng=rng)
        report.count("workers", info0["k"])
        report.count("messages", sum(info0["counts"]))
        for il in ils:
            impl, req, info = mp_case(prob, k, v, lambda c, il=il: [("M", i) for i in il], mode, rng)
            if impl == "hang":
                if "skipped" not in str(info.get("hang")):
                    viol.append({"problem": prob.to_json(), "k": k, "v": v, "mode": mode, "kind": "mp-hang", "detail": "the multiprocessing call did not return"})
                break
            reqs.append((req, impl, {"problem": prob.to_json(), "k": k, "v": v, "mode": mode, "interleaving": il}))
            report.cov["evaluations"] += 1
            report.nontrivial(req)
            case = reqs[-1][2]
            if info["raised"]:
                viol.append(dict(case, kind="mp", detail="the parent raised although every worker announced completion"))
            if mode == "solve":
                if sorted(info["yielded"]) != sorted(seq[1]):
                    viol.append(dict(case, kind="mp", detail=f"multiprocessing enumeration {sorted(info['yielded'])[:4]}.. ({len(info['yielded'])}) differs from the sequential solver ({len(seq[1])})"))
            else:
                vals = [s[mode[1]] for s in seq[1]]
                exp = None if not vals else (min(vals) if mode[0] == "min" else max(vals))
                got = None if info["best"] is None else info["best"][mode[1]]
                if got != exp or (info["best"] is not None and info["best"] not in seq[1]):
                    viol.append(dict(case, kind="mp", detail=f"distributed optimisation returned {info['best']} but the optimum value is {exp}"))
    # distributed optimisation sweep: every variable as objective, both directions, 1-3 workers; the value returned through
    # the real parent (one canonical delivery order: the optimum cannot depend on it, C11_optimize_best) must be the brute-force
    # optimum, and each worker's stream must end with what the model's `optimize` returns on that sub-problem
    import oracle
    n_opt = 60 * nv.boost("mp") if ctx["tier"] == "quick" else 1500
    done = 0
    while done < n_opt:
        prob, theme = ce.gen_problem(rng)
        exp = oracle.problem_solutions(prob, limit_size=20000)
        if exp is None:
            continue
        done += 1
        for ov in range(len(prob.idx)):
            for direction in ("min", "max"):
                k = rng.randint(1, 3)
                v = rng.randrange(len(prob.idx))
                impl, req, info = mp_case(prob, k, v, lambda c: [("M", i) for i in mpfake.interleavings(c, limit=1)[0]], (direction, ov), rng)
                report.cov["evaluations"] += 1
                if impl == "hang":
                    if "skipped" not in str(info.get("hang")):
                        viol.append({"problem": prob.to_json(), "k": k, "v": v, "mode": [direction, ov], "kind": "mp-hang",
                                     "detail": f"distributed {direction}imisation of variable {ov} did not return: {info.get('hang')}"})
                    continue
                report.count("optimize_sweep", direction)
                case = {"problem": prob.to_json(), "k": k, "v": v, "mode": [direction, ov]}
                vals = [s_[ov] for s_ in exp]
                target = None if not vals else (min(vals) if direction == "min" else max(vals))
                got = None if info["best"] is None else info["best"][ov]
                if info["raised"] or got != target or (info["best"] is not None and info["best"] not in exp):
                    viol.append(dict(case, kind="mp-opt", detail=f"distributed {direction}imisation of variable {ov} over {info['k']} workers returned {info['best']} (value {got}); the optimum over all solutions is {target}"))
                if target is not None:
                    report.nontrivial(req)
                reqs.append((req, impl, case))
                for q_, i_, d_ in worker_stream_reqs(prob, (direction, ov), info):
                    sub_reqs.append((q_, i_, dict(case, **d_)))
    answers = nv.Model().ask([q for q, _, _ in reqs])
    for (q, impl, case), ans in zip(reqs, answers):
        if not compare(impl, ans):
            corr.append(dict(case, implementation=impl, model=ans))
        report.sample({"request": q[:300], "implementation": impl[:200], "model": ans[:200]}, cap=3)
    # reuse of one MultiprocessingSolver object after an abandoned enumeration (real worker processes)
    for k_, take in (((2, 1),) if ctx["tier"] == "quick" else ((1, 1), (2, 1), (4, 2))):
        out = reuse_after_abandon(k_, take)
        report.cov["evaluations"] += 1
        report.count("reuse_after_abandoned_enumeration", out.split(" ")[0])
        if out != "ok":
            viol.append({"kind": "mp-history", "workers": k_, "taken_before_abandoning": take,
                         "detail": "a second enumeration on a MultiprocessingSolver whose first enumeration was abandoned: " + out})
    # the workers' streams against the model's search on the parts (hypothesis hW of the end-to-end theorems)
    sub_answers = nv.Model().ask([q for q, _, _ in sub_reqs])
    for (q, impl, case), ans in zip(sub_reqs, sub_answers):
        report.cov["evaluations"] += 1
        if impl != ans:
            corr.append(dict(case, kind="worker-stream", implementation=impl[:300], model=ans[:300]))
    report.count("worker_streams_compared", None, len(sub_reqs))
    report.cov["traces_validated_against_impl"] = len(reqs) + len(sub_reqs)
    report.cov["rule"] = ("generated problems split into 1-3 sub-problems; the REAL MultiprocessingSolver.solve/minimize/maximize parent loop is driven "
                          "in-process through a scripted Queue/Process (module globals rebound) with the real worker methods producing the "
                          "messages; for each case up to N interleavings of the workers' streams (all of them when few) are delivered; yielded "
                          "sequence, optimum, aggregated statistics compared with the Lean reducer fed the same delivery; result compared with "
                          "the sequential solver on the unsplit problem")
    return {"corr_diffs": corr, "violations": viol, "component": "mpRun/mpAggregate (NucsModel/MP.lean) vs MultiprocessingSolver.solve/optimize/get_statistics",
            "assumptions": ["the operating system delivers some interleaving of the workers' streams (trusted)"]}
