import copy
import random

import nv


def run(ctx):
    nv.setup_env(jit=False)
    import corr_engine as ce
    import regress
    from nucs.propagators.propagators import ALG_AFFINE_LEQ as ALG_AFFINE_LEQ_IDX

    report = ctx["report"]
    rng = random.Random(ctx["seed"] + 1201)
    viol, corr, reqs = [], [], []
    for name, r in regress.run(["split_more_parts_than_values"]).items():
        report.cov["evaluations"] += 1
        if not r["ok"]:
            viol.append({"kind": "corpus", "case": name, "detail": r["detail"]})
    # exhaustive: every [a,b] within [-3,8] x k in 0..14 x (own domain | shared domain with offsets)
    shapes = [([0], [0], 0), ([0, 0, 0], [0, -2, 3], 1), ([1, 0, 1], [0, 1, -1], 2)]
    doms = [(a, b) for a in range(-3, 9) for b in range(a, 9)]
    ks = range(0, 15)
    if ctx["tier"] == "quick":
        doms = rng.sample(doms, 26)
    for (a, b) in doms:
        for k in ks:
            for idx, off, v in shapes:
                nshr = max(idx) + 1
                shr = [(a, b) if j == idx[v] else (rng.randint(-2, 2), rng.randint(3, 5)) for j in range(nshr)]
                prob = nv.Prob(shr, idx, off)
                p = prob.build()
                before = copy.deepcopy((p.shr_domains_lst, p.dom_indices_lst, p.dom_offsets_lst))
                try:
                    parts = p.split(k, v)
                    got = [[tuple(d) for d in q.shr_domains_lst] for q in parts]
                    impl = ";".join(nv.enc_box(g) for g in got)
                    same_rest = all(q.dom_indices_lst == p.dom_indices_lst and q.dom_offsets_lst == p.dom_offsets_lst and q.propagators == p.propagators for q in parts)
                except Exception as e:  # noqa: BLE001
                    got, impl, same_rest = None, "exception " + type(e).__name__, True
                report.cov["evaluations"] += 1
                report.count("k_vs_size", "k>size" if k > b - a + 1 else ("k=0" if k == 0 else "k<=size"))
                case = {"shr": shr, "idx": idx, "off": off, "k": k, "v": v}
                vars_ = ",".join(f"{i}:{o}" for i, o in zip(idx, off))
                reqs.append((f"split {nv.enc_box(shr)} {vars_} {k} {v}", impl, case))
                if k >= 1:
                    report.nontrivial((a, b, k, v))
                    if got is None:
                        viol.append(dict(case, kind="split", detail=impl))
                        continue
                    di = idx[v]
                    vals = []
                    for g in got:
                        lo, hi = g[di]
                        if lo > hi:
                            viol.append(dict(case, kind="split", detail=f"empty sub-domain {g[di]}"))
                        vals += list(range(lo, hi + 1))
                        if any(g[j] != tuple(shr[j]) for j in range(nshr) if j != di):
                            viol.append(dict(case, kind="split", detail="a sub-problem differs outside the split domain"))
                    if sorted(vals) != list(range(a, b + 1)):
                        viol.append(dict(case, kind="split", detail=f"parts {[g[di] for g in got]} do not partition [{a},{b}]"))
                    if not same_rest:
                        viol.append(dict(case, kind="split", detail="a sub-problem changed variables or constraints"))
                    if (p.shr_domains_lst, p.dom_indices_lst, p.dom_offsets_lst) != before:
                        viol.append(dict(case, kind="split", detail="split modified the original problem"))
                    # the parts are problems of their own: refining ONE of them through the public API (a further constraint, an
                    # auxiliary variable, a narrowed domain) must leave the original and the other parts as they were (S163: parts
                    # that share their lists with the original)
                    if parts and rng.random() < 0.5:
                        snap = lambda q: copy.deepcopy((q.shr_domains_lst, q.dom_indices_lst, q.dom_offsets_lst, q.propagators,
                                                        q.propagator_nb))
                        which = rng.randrange(len(parts))
                        others = [q for j, q in enumerate(parts) if j != which]
                        b_orig, b_others = snap(p), [snap(q) for q in others]
                        try:
                            w = parts[which].add_variable((0, 1))
                            parts[which].add_propagator(([w, 0], ALG_AFFINE_LEQ_IDX, [1, -1, 0]))
                            if isinstance(parts[which].shr_domains_lst[0], list):
                                parts[which].shr_domains_lst[0][1] = parts[which].shr_domains_lst[0][0]
                        except Exception as e:  # noqa: BLE001
                            viol.append(dict(case, kind="split", detail=f"a part cannot be refined: {type(e).__name__}: {e}"))
                        report.count("refine_a_part", "done")
                        if snap(p) != b_orig:
                            viol.append(dict(case, kind="split", detail=f"refining part {which} after the split changed the ORIGINAL problem (shared lists)"))
                        if [snap(q) for q in others] != b_others:
                            viol.append(dict(case, kind="split", detail=f"refining part {which} after the split changed another part (shared lists)"))
    answers = nv.Model().ask([q for q, _, _ in reqs])
    for (q, impl, case), ans in zip(reqs, answers):
        if case["k"] >= 1 and impl != ans:
            corr.append(dict(case, implementation=impl, model=ans))
        report.sample({"request": q, "implementation": impl, "model": ans})
    # solutions of the parts vs the whole, on generated problems
    n = 60 * nv.boost("mp") if ctx["tier"] == "quick" else 1500
    for _ in range(n):
        prob, theme = ce.gen_problem(rng)
        v = rng.randrange(len(prob.idx))
        k = rng.randint(1, 7)
        whole = nv.impl_solve(prob, nv.Cfg())
        p = prob.build()
        parts = p.split(k, v)
        allp = []
        okp = True
        for q in parts:
            sub = nv.Prob([tuple(d) for d in q.shr_domains_lst], prob.idx, prob.off, prob.props)
            r = nv.impl_solve(sub, nv.Cfg())
            if r[0] != "ok":
                okp = False
                break
            allp += r[1]
        report.cov["evaluations"] += 1
        if whole[0] == "ok" and okp and sorted(allp) != sorted(whole[1]):
            viol.append({"kind": "split-solutions", "problem": prob.to_json(), "k": k, "v": v,
                         "detail": f"union of the sub-problems' solutions ({len(allp)}) differs from the problem's ({len(whole[1])})"})
    report.cov["traces_validated_against_impl"] = len(reqs)
    report.cov["exhaustive"] = ctx["tier"] == "thorough"
    report.cov["rule"] = ("Problem.split(k, v) for every [a,b] within [-3,8] (sampled in the quick tier), k = 0..14 (k = 0 only compared for "
                          "non-crashing), variables with own and shared domains with offsets: sub-domain lists compared with the model's "
                          "splitProblem; parts checked to be non-empty, disjoint, covering, everything else unchanged, original untouched; "
                          "find_all over the parts vs the whole on generated problems")
    return {"corr_diffs": corr, "violations": viol, "component": "splitProblem (NucsModel/ProblemOps.lean) vs Problem.split"}
