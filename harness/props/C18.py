import json
import os
import random
import subprocess
import sys

import nv

WORKER_DEATH = r'''
import os, sys, threading, time
sys.path.insert(0, %(repo)r)
import logging; logging.disable(logging.CRITICAL)
from nucs.problems.problem import Problem
from nucs.solvers.backtrack_solver import BacktrackSolver
from nucs.solvers.multiprocessing_solver import MultiprocessingSolver
DIE_AFTER = %(die_after)d
MODE = %(mode)r
class Dying(BacktrackSolver):
    def _die(self, q, n):
        class Q:
            def __init__(s): s.n = 0
            def put(s, item):
                if s.n == n:
                    # what was put before must really have left this process (the queue's feeder thread flushes asynchronously):
                    # otherwise "dies after k messages" silently becomes "dies before the first message"
                    try:
                        q.close(); q.join_thread()
                    except Exception:
                        pass
                    if MODE == "exit": os._exit(3)
                    if MODE == "exit0": os._exit(0)  # a CLEAN exit status without the marker (an inherited SIGTERM handler calling sys.exit(0))
                    if MODE == "raise": raise RuntimeError("boom")
                    if MODE == "kill": os.kill(os.getpid(), 9)
                s.n += 1
                q.put(item)
        return Q()
    def solve_and_queue(self, i, q):
        super().solve_and_queue(i, self._die(q, DIE_AFTER))
    def minimize_and_queue(self, v, i, q):
        super().minimize_and_queue(v, i, self._die(q, DIE_AFTER))
k = %(workers)d
dying = %(dying)d
solvers = [(Dying if i == dying else BacktrackSolver)(Problem([(0, 1), (0, 1)]), log_level="ERROR") for i in range(k)]
s = MultiprocessingSolver(solvers, log_level="ERROR")
def watchdog():
    print("hang"); sys.stdout.flush(); os._exit(0)
t = threading.Timer(%(deadline)d, watchdog); t.daemon = True; t.start()
t0 = time.time()
try:
    if %(optimize)r:
        r = s.minimize(0); print("returned", None if r is None else 1)
    else:
        n = len(list(s.solve())); print("returned", n)
except Exception as e:
    print("raised", type(e).__name__)
sys.stdout.flush()
os._exit(0)
'''


def real_death(workers, dying, die_after, mode, optimize, deadline=25):
    code = WORKER_DEATH % {"repo": nv.REPO, "die_after": die_after, "mode": mode, "workers": workers, "dying": dying,
                           "deadline": deadline, "optimize": optimize}
    env = dict(os.environ)
    env["NUMBA_DISABLE_JIT"] = "1"
    try:
        r = subprocess.run([sys.executable, "-c", code], capture_output=True, text=True, timeout=deadline + 30, env=env)
        out = (r.stdout.strip().splitlines() or ["no-output"])[-1]
    except subprocess.TimeoutExpired:
        out = "hang"
    return out


def run(ctx):
    nv.setup_env(jit=False)
    import corr_engine as ce
    import mpfake
    from props.C11 import mp_case, compare

    report = ctx["report"]
    rng = random.Random(ctx["seed"] + 1801)
    viol, corr, reqs = [], [], []
    # (1) real processes: a worker dies before the first message / between two solutions / just before the marker
    scenarios = []
    for workers in ((1, 2) if ctx["tier"] == "quick" else (1, 2, 3, 4)):
        for die_after in (0, 2, 4):  # a 2-boolean problem has 4 solutions + marker: 0 = before first, 2 = between, 4 = before marker
            for mode in (("exit",) if ctx["tier"] == "quick" else ("exit", "raise", "kill")):
                scenarios.append((workers, workers - 1, die_after, mode, False))
    # optimisation: death before the first message, and death AFTER a solution was sent (instead of the completion marker) — alone,
    # as the last worker to speak, or while another worker is still to speak
    opt_sc = [(2, 0, 0, "exit", True), (1, 0, 1, "exit", True), (2, 1, 1, "exit", True), (2, 0, 1, "kill", True),
              (2, 1, 2, "exit0", False), (2, 0, 1, "exit0", True)]
    if ctx["tier"] == "thorough":
        opt_sc += [(3, 2, 1, "raise", True), (3, 0, 1, "exit", True), (1, 0, 1, "kill", True)]
    if ctx["tier"] == "quick":
        scenarios = scenarios[:5]
    scenarios += opt_sc
    procs = []
    for sc in scenarios:
        out = real_death(*sc)
        report.cov["evaluations"] += 1
        report.count("real_process_outcome", out.split(" ")[0])
        report.nontrivial(("real",) + sc)
        case = {"op": "real-processes", "workers": sc[0], "dying_worker": sc[1], "dies_after_messages": sc[2], "how": sc[3], "optimize": sc[4]}
        report.sample(dict(case, outcome=out))
        if not (out.startswith("raised") or out.startswith("returned")):
            viol.append(dict(case, kind="hang", detail=f"the caller did not get control back within the deadline: {out}"))
    # (2) scripted queue: the marker of a worker is withheld and the worker reported dead; model must agree
    n = 30 * nv.boost("mp") if ctx["tier"] == "quick" else 600
    done = 0
    while done < n:
        prob, theme = ce.gen_problem(rng)
        seq = nv.impl_solve(prob, nv.Cfg())
        if seq[0] != "ok" or len(seq[1]) > 8:
            continue
        done += 1
        k = rng.randint(1, 3)
        v = rng.randrange(len(prob.idx))
        dying = None

        def sched(counts):
            w = rng.randrange(len(counts))
            keep = rng.randint(0, counts[w] - 1)  # the marker (last message) is never delivered
            cnt = list(counts)
            cnt[w] = keep
            il = mpfake.interleavings(cnt, limit=1, rng=rng)[0]
            ev = [("M", i) for i in il]
            alive_all = [True] * len(counts)
            dead = list(alive_all)
            dead[w] = False
            # benign time-outs, then the death is observed, then nothing is left
            pos = rng.randint(0, len(ev))
            ev.insert(pos, ("T", alive_all))
            ev.append(("T", dead))
            ev.append(("T", dead))
            return ev

        def sched_silent(counts):
            # the dying worker's marker is withheld AND the survivors stay alive but deliver nothing more (in a real run: blocked on
            # the queue lock the killed worker held): the parent must still give up two polls after the death is observed
            w = rng.randrange(len(counts))
            cnt = [rng.randint(0, c - 1) for c in counts]
            il = mpfake.interleavings(cnt, limit=1, rng=rng)[0]
            ev = [("M", i) for i in il]
            alive_all = [True] * len(counts)
            dead = list(alive_all)
            dead[w] = False
            ev.insert(rng.randint(0, len(ev)), ("T", alive_all))
            ev += [("T", dead)] * 5
            return ev
        silent = k >= 2 and rng.random() < 0.5
        mode_ = "solve" if rng.random() < 0.6 else (rng.choice(["min", "max"]), rng.randrange(len(prob.idx)))
        impl, req, info = mp_case(prob, k, v, sched_silent if silent else sched, mode_, rng)
        reqs.append((req, impl, {"problem": prob.to_json(), "k": k, "v": v}))
        report.cov["evaluations"] += 1
        report.nontrivial(req)
        report.count("scripted_death", "silent survivors" if silent else "survivors finish")
        if silent and info["raised"] and info.get("scheduled", 0) - info.get("consumed", 0) < 3:
            viol.append({"kind": "hang", "problem": prob.to_json(), "k": k, "v": v,
                         "detail": "a worker is dead without its completion marker while the other workers stay alive and silent: the parent kept polling "
                                   f"({info['consumed']} of {info['scheduled']} scripted events consumed) instead of giving up two polls after the death"})
        if not info["raised"]:
            viol.append({"kind": "hang", "problem": prob.to_json(), "detail": "a worker's completion marker never arrives and the worker is dead, but the parent did not raise"})
    answers = nv.Model().ask([q for q, _, _ in reqs])
    for (q, impl, case), ans in zip(reqs, answers):
        if not compare(impl, ans):
            corr.append(dict(case, implementation=impl[:300], model=ans[:300]))
    report.cov["traces_validated_against_impl"] = len(reqs)
    report.cov["rule"] = ("(1) REAL worker processes of MultiprocessingSolver that exit / raise / are killed before their first message, between two "
                          "solutions or just before the completion marker, 1-4 workers, with a deadline watchdog on the caller; (2) the real parent "
                          "loop on a scripted queue that withholds a marker, reports benign time-outs, then reports the worker dead: the parent "
                          "must raise exactly where the Lean parent model raises")
    return {"corr_diffs": corr, "violations": viol, "component": "mpStep with time-outs (NucsModel/MP.lean) vs get_message / MultiprocessingSolver",
            "partial": ["that Process.is_alive() eventually reports a death and Queue.get(timeout) returns in time is OS behaviour: tested with real processes, not proved"]}
