"""shared body of the whole-solver properties (C01 C02 C03 C04 C10 C15 C17)"""
import random

import nv
import oracle


def gen_objective_case(rng, ce, cons=None):
    """an optimisation family: z = x + y (or x - y) linked by an equality, two random linear inequalities on (x, y); several
    improving solutions and constraints that become entailed at the root after a tightening"""
    xs = (0, rng.randint(1, 3))
    ys = (0, rng.randint(2, 4))
    sign = rng.choice([1, 1, -1])
    shr = [xs, ys, (-6, 10)]
    props = [([0, 1, 2], "affine_eq", [1, sign, -1, 0])]
    for _ in range(2):
        a, b = rng.randint(1, 3), rng.randint(1, 3)
        alg = rng.choice(["affine_geq", "affine_leq"])
        k = rng.randint(1, a * xs[1] + b * ys[1])
        props.append(([0, 1], alg, [a, b, k]))
    rng.shuffle(props)
    if rng.random() < 0.3:  # the objective as an alias with an offset
        prob = nv.Prob(shr, [0, 1, 2, 2], [0, 0, 0, rng.randint(-2, 2)], props)
        v = 3
    else:
        prob = nv.Prob(shr, props=props)
        v = 2
    cfg = ce.gen_cfg(rng, prob, cons=cons)
    return {"op": "opt", "problem": prob.to_json(), "cfg": ce.cfg_json(cfg), "theme": "objective", "v": v, "minimize": rng.random() < 0.5}


def gen_cases(rng, n, with_opt=True, cons=None, limit_prob=0.0, observe=False):
    cases = _gen_cases(rng, n, with_opt, cons, limit_prob)
    if observe:
        for c in cases:
            c["observe"] = True
    return cases


def _gen_cases(rng, n, with_opt=True, cons=None, limit_prob=0.0):
    import corr_engine as ce

    cases = []
    for _ in range(n):
        if with_opt and rng.random() < 0.2:
            cases.append(gen_objective_case(rng, ce, cons))
        p, theme = ce.gen_problem(rng)
        cfg = ce.gen_cfg(rng, p, cons=cons)
        c = {"op": "solve", "problem": p.to_json(), "cfg": ce.cfg_json(cfg), "theme": theme}
        if limit_prob and rng.random() < limit_prob:
            c["limit"] = rng.randint(1, 3)
        cases.append(c)
        if with_opt and rng.random() < 0.35:
            v = rng.randrange(len(p.idx))
            cases.append({"op": "opt", "problem": p.to_json(), "cfg": ce.cfg_json(cfg), "theme": theme, "v": v,
                          "minimize": rng.random() < 0.5})
    return cases


def stats_laws(c, res):
    """C17 conservation laws on the real solver's statistics; list of details"""
    bad = []
    st = dict(zip(nv.STAT_LABELS, res[2]))
    plain_bc = c["cfg"]["cons"] == 0
    if c["op"] == "solve":
        if st["SOLVER_SOLUTION_NB"] != len(res[1]):
            bad.append(f"SOLUTION_NB {st['SOLVER_SOLUTION_NB']} != solutions delivered {len(res[1])}")
        if plain_bc and c.get("limit") is None:
            if st["SOLVER_BACKTRACK_NB"] != st["SOLVER_CHOICE_NB"] * 1 and False:
                pass
            if st["ALG_BC_NB"] != 1 + st["SOLVER_CHOICE_NB"] + st["SOLVER_BACKTRACK_NB"]:
                bad.append(f"ALG_BC_NB {st['ALG_BC_NB']} != 1 + CHOICE {st['SOLVER_CHOICE_NB']} + BACKTRACK {st['SOLVER_BACKTRACK_NB']}")
        if plain_bc:
            # every pass ends in exactly one of: a solution, a decision, a failure (C17_solveAll / SearchLaw)
            if st["ALG_BC_NB"] != st["SOLVER_SOLUTION_NB"] + st["SOLVER_CHOICE_NB"] + st["PROPAGATOR_INCONSISTENCY_NB"]:
                bad.append(f"ALG_BC_NB {st['ALG_BC_NB']} != SOLUTION {st['SOLVER_SOLUTION_NB']} + CHOICE {st['SOLVER_CHOICE_NB']} + "
                           f"INCONSISTENCY {st['PROPAGATOR_INCONSISTENCY_NB']}: a failed pass was not counted (or counted twice)")
    if st["PROPAGATOR_FILTER_NO_CHANGE_NB"] + st["PROPAGATOR_INCONSISTENCY_NB"] > st["PROPAGATOR_FILTER_NB"]:
        bad.append("NO_CHANGE + INCONSISTENCY exceeds FILTER_NB")
    if st["PROPAGATOR_ENTAILMENT_NB"] > st["PROPAGATOR_FILTER_NB"]:
        bad.append("ENTAILMENT_NB exceeds FILTER_NB")
    if st["ALG_SHAVING_CHANGE_NB"] + st["ALG_SHAVING_NO_CHANGE_NB"] != st["ALG_SHAVING_NB"]:
        bad.append("SHAVING_CHANGE + SHAVING_NO_CHANGE != SHAVING_NB")
    return bad


def direct_checks(c, res, kinds):
    """evaluate the properties directly on the result of the REAL solver against the brute-force oracle"""
    out = []
    prob = nv.Prob.from_json(c["problem"])
    if res[0] == "hang":
        if "term" in kinds:
            out.append(("term", "the solver call did not return within the watchdog"))
        return out
    if res[0] == "skipped":
        return out
    if res[0] == "crash":
        out.append(("crash", "the solver process died: " + str(res[1])))
        return out
    if res[0] == "err":
        if res[1] == "oob" and "oob" in kinds:
            out.append(("oob", "IndexError/OverflowError raised by an in-contract run"))
        if res[1] == "stack-overflow" and "stack" in kinds:
            out.append(("stack", "stack overflow reported although the default height suffices"))
        return out
    if c["op"] == "solve":
        sols = res[1]
        if "sat" in kinds:
            for s in sols:
                for vs, a, ps in prob.props:
                    if not oracle.rel_weak(a, ps, [s[v] for v in vs]):
                        out.append(("sat", f"solution {s} violates {a}{ps} on variables {vs}"))
                        break
                for v, (i, o) in enumerate(zip(prob.idx, prob.off)):
                    lo, hi = prob.shr[i]
                    if not lo + o <= s[v] <= hi + o:
                        out.append(("sat", f"solution {s}: variable {v} outside its domain"))
                for v in range(len(prob.idx)):
                    for w in range(v):
                        if prob.idx[v] == prob.idx[w] and s[v] - prob.off[v] != s[w] - prob.off[w]:
                            out.append(("sat", f"solution {s}: variables {w},{v} share a domain but do not differ by their offsets"))
        if "enum" in kinds and c.get("limit") is None:
            exp = oracle.problem_solutions(prob)
            if exp is not None:
                if sorted(exp) != sorted(sols):
                    lost = [s for s in exp if s not in sols]
                    extra = [s for s in sols if s not in exp]
                    dup = [s for s in sols if sols.count(s) > 1]
                    out.append(("enum", f"enumeration differs from brute force: lost {lost[:3]} extra {extra[:3]} duplicated {dup[:3]} ({len(sols)} vs {len(exp)})"))
    else:
        best = res[1]
        if "sat" in kinds and best is not None:
            for vs, a, ps in prob.props:
                if not oracle.rel_weak(a, ps, [best[v] for v in vs]):
                    out.append(("sat", f"the vector {best} returned by {'minimize' if c['minimize'] else 'maximize'}({c['v']}) violates {a}{ps} on variables {vs}"))
                    break
            for v, (i, o) in enumerate(zip(prob.idx, prob.off)):
                lo, hi = prob.shr[i]
                if not lo + o <= best[v] <= hi + o:
                    out.append(("sat", f"optimisation result {best}: variable {v} outside its domain"))
        if "opt" in kinds:
            exp = oracle.problem_solutions(prob)
            if exp is not None:
                v = c["v"]
                if not exp:
                    if best is not None:
                        out.append(("opt", f"infeasible problem but optimisation returned {best}"))
                else:
                    target = min(s[v] for s in exp) if c["minimize"] else max(s[v] for s in exp)
                    if best is None:
                        out.append(("opt", f"feasible problem (optimum {target}) but optimisation returned None"))
                    elif best not in exp:
                        out.append(("opt", f"optimisation returned {best} which is not a solution"))
                    elif best[v] != target:
                        out.append(("opt", f"optimisation returned value {best[v]} but the optimum is {target}"))
    if "stats" in kinds:
        for d in stats_laws(c, res):
            out.append(("stats", d))
        if len(res) > 3 and isinstance(res[3], dict):
            import observe

            for d in observe.compare(dict(zip(nv.STAT_LABELS, res[2])), res[3]):
                out.append(("stats", "statistic differs from the events observed by interposition: " + d))
    return out


def solver_sweep(ctx, cases, kinds, jit=False, tag="s"):
    """runs the cases on the real solver and on the model; returns (corr_diffs, violations)"""
    import corr_engine as ce

    report = ctx["report"]
    res = ce.run_impl(cases, jit=jit, tag=tag)
    ans = nv.Model().ask(ce.model_lines(cases))
    corr, viol = [], []
    for c, r, a in zip(cases, res, ans):
        report.cov["evaluations"] += 1
        il = ce.impl_line(c, r)
        report.count("theme", c.get("theme", "?"))
        report.count("config", f"{nv.CONS_ALGS[c['cfg']['cons']][:3]}/{nv.VAR_HEURS[c['cfg']['varh']][:8]}/{nv.DOM_HEURS[c['cfg']['domh']][:8]}")
        report.count("op", c["op"])
        if r[0] == "ok":
            st = dict(zip(nv.STAT_LABELS, r[2]))
            report.count("backtracks", min(st["SOLVER_BACKTRACK_NB"], 20))
            if c["op"] == "solve":
                report.count("solutions", min(len(r[1]), 20))
            if st["SOLVER_CHOICE_NB"] > 0 or st["PROPAGATOR_INCONSISTENCY_NB"] > 0:
                report.nontrivial(ce.model_lines([c])[0])
        else:
            report.count("outcome", r[0] + ":" + str(r[1])[:20])
        replay = {k: c[k] for k in c if k != "theme"}
        if il != a and r[0] in ("ok", "err"):
            corr.append(dict(replay, implementation=il[:400], model=a[:400], mode="jit" if jit else "interpreted"))
        for kind, detail in direct_checks(c, r, kinds):
            viol.append(dict(replay, kind=kind, detail=detail, mode="jit" if jit else "interpreted"))
        report.sample({"case": replay, "implementation": il[:200], "model": a[:200]}, cap=4)
    report.cov["traces_validated_against_impl"] += len(cases)
    return corr, viol


def standard_run(ctx, prop, kinds, n_quick, n_thorough, regress_names=(), with_opt=True, cons=None, limit_prob=0.0, rule="", observe=False):
    nv.setup_env(jit=False)
    import regress

    report = ctx["report"]
    rng = random.Random(ctx["seed"] * 104729 + hash(prop) % 1000)
    violations, corr = [], []
    for name, r in regress.run(list(regress_names)).items():
        report.cov["evaluations"] += 1
        report.count("corpus", name)
        if not r["ok"]:
            violations.append({"kind": "corpus", "case": name, "detail": r["detail"]})
    n = n_quick * nv.boost("engine") if ctx["tier"] == "quick" else n_thorough
    report.cov["budget_boost"] = nv.boost("engine")
    report.cov["source_files_changed_since_validation"] = nv.changed_files()
    cases = gen_cases(rng, n, with_opt=with_opt, cons=cons, limit_prob=limit_prob, observe=observe)
    d, v = solver_sweep(ctx, cases, kinds, tag=prop)
    corr += d
    violations += v
    if (not ctx["proof"]["ok"] or corr) and not violations and ctx["tier"] == "quick":
        cases = gen_cases(rng, n * 4, with_opt=with_opt, cons=cons, limit_prob=limit_prob, observe=observe)
        d, v = solver_sweep(ctx, cases, kinds, tag=prop)
        violations += v
    report.cov["rule"] = rule or (
        "generated problems (1-4 shared domains incl. negative and singleton, extra variables sharing a domain with an offset, "
        "1-4 constraints of every shipped type within contract, a variable or shared domain repeated inside one constraint with "
        "probability 1/4, circuit models) x random configuration (BC/shaving x 4 variable x 5 value heuristics); the real solver "
        "runs in a watchdog-supervised process; solution SEQUENCE and the 13 statistics compared with the Lean model; result "
        "compared with brute-force enumeration; non-trivial = at least one choice or one failure")
    return corr, violations
