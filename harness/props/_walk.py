"""shared body of the step-level properties C08 and C09 (random walks over reachable states)"""
import random

import nv


def run_walks(ctx, kinds_wanted, ops_wanted, n_quick, n_thorough, regress_names=()):
    nv.setup_env(jit=False)
    import corr_engine as ce
    import regress
    import walk

    report = ctx["report"]
    rng = random.Random(ctx["seed"] * 7919 + 13)
    violations, corr = [], []
    for name, r in regress.run(list(regress_names)).items():
        report.cov["evaluations"] += 1
        report.count("corpus", name)
        if not r["ok"]:
            violations.append({"kind": "corpus", "case": name, "detail": r["detail"]})
    n = n_quick * nv.boost("engine") if ctx["tier"] == "quick" else n_thorough
    report.cov["budget_boost"] = nv.boost("engine")
    report.cov["source_files_changed_since_validation"] = nv.changed_files()
    if (not ctx["proof"]["ok"]) and ctx["tier"] == "quick":
        n = n * 4
    reqs = []
    k3 = []
    for i in range(n):
        prob, theme = ce.gen_problem(rng)
        v, steps = walk.walk(prob, rng, reqs, steps=14)
        report.count("theme", theme)
        for k, c in steps.items():
            report.count("steps", k, c)
        violations += [x for x in v if x["kind"] in kinds_wanted or x["kind"] == "hang"]
        k3 += [x for x in v if x["kind"] == "K3"]
        if sum(1 for x in violations if x["kind"] == "hang") >= 3:
            break  # three passes/decisions that never returned are enough: every further walk would cost its whole watchdog
    sel = [(q, e, r) for q, e, r in reqs if r["op"] in ops_wanted]
    answers = nv.Model().ask([q for q, _, _ in sel])
    for (q, exp, replay), ans in zip(sel, answers):
        report.cov["evaluations"] += 1
        if ans != exp:
            corr.append(dict(replay, implementation=exp, model=ans))
            if replay["op"] == "bc" and "fixpoint" in kinds_wanted:
                # a pass after which re-executing no_sub_cycle fails is the known finding K3 only when the MODEL of the unchanged
                # engine (which reproduces K3 faithfully) ends the pass the same way; here it does not
                for x in k3:
                    if all(x.get(k) == replay.get(k) for k in ("problem", "doms", "not_entailed", "triggered")):
                        violations.append(dict(x, kind="fixpoint", detail=x["detail"] + " — and the model of the unchanged engine does not end this pass "
                                                                                 "like that, so this is not the known finding K3: a wake-up was lost"))
        if replay["op"] == "bc":
            st = exp.split(" ")[0]
            report.count("pass_status", st)
            if st == "0" or exp.split(" ")[1] != nv.enc_box(replay["doms"]):
                report.nontrivial(q)
        else:
            report.count("heuristic", replay["heuristic"])
            report.nontrivial(q)
        report.sample({"request": q, "implementation": exp, "model": ans})
    if corr and not violations:
        # the correspondence broke without a direct violation: search harder for a concrete failing state
        extra = []
        for i in range(n * 6):
            prob, theme = ce.gen_problem(rng)
            v, steps = walk.walk(prob, rng, extra, steps=14)
            violations += [x for x in v if x["kind"] in kinds_wanted or x["kind"] == "hang"]
            if len(violations) >= 3:
                break
    report.cov["traces_validated_against_impl"] = n
    return corr, violations
