from props._solver import standard_run


def run(ctx):
    corr, viol = standard_run(ctx, "C17", {"stats", "term", "crash"}, 700, 40000, ["two_no_sub_cycle_livelock"], limit_prob=0.25, observe=True)
    return {"corr_diffs": corr, "violations": viol, "component": "event counts observed by interposition on the interpreted engine (harness/observe.py) and the 13 statistics of the model vs BacktrackSolver.get_statistics() after enumeration, partial enumeration and optimisation"}
