from props._local import known_witnesses
from props._solver import standard_run


def run(ctx):
    corr, viol = standard_run(ctx, "C04", {"term", "crash"}, 600, 10000,
                              ["two_no_sub_cycle_livelock", "optimize_unwatched_objective", "max_regret_ties"])
    return {"corr_diffs": corr, "violations": viol, "known": known_witnesses(ctx, "C04"),
            "component": "bcLoop fuel / solveOne fuel vs the real solver under a watchdog",
            "assumptions": ["a watchdog time-out on the implementation is reported as non-termination"]}
