import nv
from props._local import known_witnesses
from props._solver import standard_run


def var_heuristics(ctx, corr, viol):
    """every shipped variable heuristic on random states: same pick as the model; an unbound decision domain is
    returned whenever one exists (never the -1 that would be used as an index)"""
    import random

    import numpy as np

    import nv
    import nucs.heuristics.heuristics as H

    rng = random.Random(ctx["seed"] + 401)
    report = ctx["report"]
    reqs = []
    n = 400 * nv.boost("engine") if ctx["tier"] == "quick" else 8000
    for _ in range(n):
        nd = rng.randint(1, 6)
        doms = []
        for _ in range(nd):
            a = rng.randint(0, 4)
            doms.append((a, a + rng.choice([0, 0, 1, 2, 3])))
        dec = [d for d in range(nd) if rng.random() < 0.8] or [0]
        rng.shuffle(dec)
        maxv = max(b for a, b in doms)
        costs = [[rng.choice([1, 1, 2, 3, 5]) for _ in range(maxv + 1)] for _ in range(nd)]
        for name in nv.VAR_HEURS:
            fct = [f for f in H.VAR_HEURISTIC_FCTS if f.__name__ == name][0]
            stack = np.zeros((2, nd, 2), dtype=np.int32)
            stack[0] = doms
            top = np.zeros(1, dtype=np.uint8)
            params = np.array(costs if name == "max_regret_var_heuristic" else [[]], dtype=np.int64)
            got = int(fct(params, np.array(dec, dtype=np.uint16), stack, top))
            report.cov["evaluations"] += 1
            unbound = [d for d in dec if doms[d][0] < doms[d][1]]
            case = {"op": "varheur", "heuristic": name, "doms": doms, "decision": dec, "costs": costs}
            if unbound and (got not in unbound):
                viol.append(dict(case, kind="varheur", detail=f"returned {got} although the unbound decision domains are {unbound}"))
            if not unbound and got != -1:
                viol.append(dict(case, kind="varheur", detail=f"returned {got} although no decision domain is unbound"))
            if unbound:
                report.nontrivial((name, str(doms), str(dec)))
            reqs.append((f"varheur {name} {nv.enc_rows(costs) if name == 'max_regret_var_heuristic' else '-'} {nv.enc_ints(dec)} {nv.enc_box(doms)}", str(got), case))
    answers = nv.Model().ask([q for q, _, _ in reqs])
    for (q, impl, case), ans in zip(reqs, answers):
        if impl != ans:
            corr.append(dict(case, implementation=impl, model=ans))


def run(ctx):
    corr, viol = standard_run(ctx, "C04", {"term", "crash"}, 600, 30000,
                              ["two_no_sub_cycle_livelock", "optimize_unwatched_objective", "max_regret_ties"])
    var_heuristics(ctx, corr, viol)
    # every single filtering call returns (per-propagator termination: `Safe`, `C04_port_alldifferent`, `C04_port_gcc`):
    # each shipped algorithm on its small scope + random + wide cases under a per-call watchdog, outcome compared with the model
    import gen
    import props_sweep
    d, v = props_sweep.sweep(gen.ALGS, ctx["tier"], ctx["seed"] + 4, ctx["report"], {"term", "oob"}, budget=400 if ctx["tier"] == "quick" else 20000)
    corr += d
    viol += v
    return {"corr_diffs": corr, "violations": viol, "known": known_witnesses(ctx, "C04"),
            "component": "bcLoop fuel / solveOne fuel vs the real solver under a watchdog",
            "assumptions": ["a watchdog time-out on the implementation is reported as non-termination"]}
