import random

import nv

TRANS_INV = {"alldifferent", "max_eq", "max_leq", "min_eq", "min_geq", "lexicographic_leq", "dummy",
             "affine_eq", "affine_geq", "affine_leq", "exactly_eq"}


def from_problem(p):
    """nv.Prob from a nucs Problem object (used for the shipped examples)"""
    names = nv.alg_names()
    return nv.Prob([tuple(d) for d in p.shr_domains_lst], list(p.dom_indices_lst), list(p.dom_offsets_lst),
                   [(list(v), names[a], [int(x) for x in ps]) for v, a, ps in p.propagators])


def rewrites(prob, rng):
    """yield (name, rewritten problem, function mapping a solution of the rewritten problem to one of the original)"""
    props = list(prob.props)
    if len(props) >= 2:
        q = list(props)
        rng.shuffle(q)
        yield "permute-constraints", nv.Prob(prob.shr, prob.idx, prob.off, q), lambda s: s
    if props:
        dup = rng.choice(props)
        pos = rng.randint(0, len(props))
        yield "post-twice", nv.Prob(prob.shr, prob.idx, prob.off, props[:pos] + [dup] + props[pos:]), lambda s: s
    nvars = len(prob.idx)
    dv = [rng.randrange(nvars) for _ in range(rng.randint(1, 3))]
    yield "add-dummy", nv.Prob(prob.shr, prob.idx, prob.off, props + [(dv, "dummy", [])]), lambda s: s
    # permute the variables
    perm = list(range(nvars))
    rng.shuffle(perm)  # new position j holds old variable perm[j]
    inv = [0] * nvars
    for j, o in enumerate(perm):
        inv[o] = j
    yield ("permute-variables",
           nv.Prob(prob.shr, [prob.idx[o] for o in perm], [prob.off[o] for o in perm], [([inv[v] for v in vs], a, ps) for vs, a, ps in props]),
           lambda s, inv=inv: [s[inv[o]] for o in range(nvars)])
    # unshare: a variable that shares its domain gets a domain of its own, linked by an equality
    shared = [v for v in range(nvars) if sum(1 for w in range(nvars) if prob.idx[w] == prob.idx[v]) > 1]
    if shared:
        v = rng.choice(shared)
        d, o = prob.idx[v], prob.off[v]
        e = len(prob.shr)
        lo, hi = prob.shr[d]
        u = nvars + 0  # a fresh variable on d with offset 0 (the anchor of the equality)
        shr = list(prob.shr) + [(lo + o, hi + o)]
        idx = list(prob.idx)
        off = list(prob.off)
        idx[v], off[v] = e, 0
        idx.append(d)
        off.append(0)
        yield ("unshare", nv.Prob(shr, idx, off, props + [([v, u], "affine_eq", [1, -1, o])]), lambda s: s[:nvars])
    # translate all values (translation-invariant constraint types only)
    if props and all(a in TRANS_INV for _, a, _ in props):
        k = rng.choice([-3, -1, 2, 5])
        tp = []
        for vs, a, ps in props:
            if a in ("affine_eq", "affine_geq", "affine_leq"):
                tp.append((vs, a, list(ps[:-1]) + [ps[-1] + k * sum(ps[:-1])]))
            elif a == "exactly_eq":
                tp.append((vs, a, [ps[0] + k, ps[1]]))
            else:
                tp.append((vs, a, ps))
        yield ("translate", nv.Prob([(a_ + k, b_ + k) for a_, b_ in prob.shr], prob.idx, prob.off, tp), lambda s, k=k: [x - k for x in s])


def init_dump(prob):
    """the arrays Problem.init builds, in the driver's `init` format"""
    p = prob.build()
    p.init()
    names = nv.alg_names()
    lean = {"and": "and", "affine_eq": "affineEq", "affine_geq": "affineGeq", "affine_leq": "affineLeq", "alldifferent": "alldifferent",
            "count_eq": "countEq", "dummy": "dummy", "element_iv": "elementIv", "element_liv": "elementLiv", "element_lic": "elementLic",
            "exactly_eq": "exactlyEq", "exactly_true": "exactlyTrue", "gcc": "gcc", "lexicographic_leq": "lexLeq", "max_eq": "maxEq",
            "max_leq": "maxLeq", "min_eq": "minEq", "min_geq": "minGeq", "no_sub_cycle": "noSubCycle", "relation": "relation", "scc": "scc"}
    order = []
    for i in range(p.propagator_nb):
        a = names[int(p.algorithms[i])]
        vs, ve = int(p.var_bounds[i, 0]), int(p.var_bounds[i, 1])
        ps, pe = int(p.param_bounds[i, 0]), int(p.param_bounds[i, 1])
        vars_ = ",".join(f"{int(p.props_dom_indices[k])}:{int(p.props_dom_offsets[k, 0])}" for k in range(vs, ve))
        order.append(f"Nucs.Alg.{lean[a]}|{vars_}|{nv.enc_ints(p.props_parameters[ps:pe])}")
    trig = ";".join(nv.enc_ints(p.triggers[d]) for d in range(p.shr_domain_nb)) if p.propagator_nb else ";".join("-" for _ in range(p.shr_domain_nb))
    return f"{';'.join(order)} {trig if trig else '-'}"


def run(ctx):
    nv.setup_env(jit=False)
    import corr_engine as ce
    import regress

    report = ctx["report"]
    rng = random.Random(ctx["seed"] + 1301)
    viol, corr = [], []
    for name, r in regress.run(["duplicate_shared_domain", "add_variable_shared_domains"]).items():
        report.cov["evaluations"] += 1
        if not r["ok"]:
            viol.append({"kind": "corpus", "case": name, "detail": r["detail"]})
    n = 120 * nv.boost("engine") if ctx["tier"] == "quick" else 3000
    cases, meta, init_reqs = [], [], []
    problems = []
    for _ in range(n):
        prob, theme = ce.gen_problem(rng)
        problems.append((prob, theme))
    # ONE constraint whose variables are several views of ONE shared domain (offsets differ): the write-back of such a constraint
    # can instantiate the domain although its own all-ground test did not fire, so it wakes ITSELF and is the only pending
    # constraint — unsharing it, or posting it twice, must still give the same solutions (S159)
    for _ in range(60 * nv.boost("engine") if ctx["tier"] == "quick" else 1500):
        a = rng.randint(-2, 2)
        shr = [(a, a + rng.choice([1, 1, 2, 3]))]
        if rng.random() < 0.3:
            b = rng.randint(-2, 2)
            shr.append((b, b + rng.choice([0, 1, 2])))
        k = rng.randint(2, 3)
        offs = rng.sample([-2, -1, 0, 1, 2], k)
        idx, off = [0] * k, list(offs)
        for d in range(1, len(shr)):
            idx.append(d)
            off.append(0)
        vs = list(range(len(idx)))
        rng.shuffle(vs)
        vs = vs[:rng.randint(2, len(vs))]
        cs = [rng.choice([-2, -1, 1, 1, 2, 3]) for _ in vs]
        q = nv.Prob(shr, idx, off)
        mid = sum(c * rng.randint(shr[idx[v]][0] + off[v], shr[idx[v]][1] + off[v]) for c, v in zip(cs, vs))
        q.props.append((vs, rng.choice(["affine_eq", "affine_eq", "affine_leq", "affine_geq"]), cs + [mid + rng.choice([-1, 0, 0, 0, 1])]))
        problems.append((q, "views-of-one-domain"))
    # shipped examples at sizes beyond brute force (these relations need no oracle)
    try:
        from nucs.examples.magic_sequence.magic_sequence_problem import MagicSequenceProblem
        from nucs.examples.queens.queens_problem import QueensProblem
        from nucs.examples.schur_lemma.schur_lemma_problem import SchurLemmaProblem
        from nucs.problems.circuit_problem import CircuitProblem

        ex = [QueensProblem(6), MagicSequenceProblem(7), SchurLemmaProblem(6), CircuitProblem(5)]
        if ctx["tier"] == "thorough":
            ex += [QueensProblem(8), MagicSequenceProblem(10), SchurLemmaProblem(9), CircuitProblem(6)]
        for e in ex:
            problems.append((from_problem(e), "example:" + type(e).__name__))
    except Exception as e:  # noqa: BLE001
        viol.append({"kind": "examples", "detail": f"could not build the shipped examples: {e}"})
    for prob, theme in problems:
        cfg = ce.gen_cfg(rng, prob) if not theme.startswith("example") else nv.Cfg()
        base_i = len(cases)
        cases.append({"op": "solve", "problem": prob.to_json(), "cfg": ce.cfg_json(cfg)})
        meta.append(("base", None, base_i, theme))
        if not theme.startswith("example") or True:
            init_reqs.append((f"init {prob.enc()}", prob))
        try:
            rw_list = list(rewrites(prob, rng))
        except (IndexError, KeyError, ValueError) as e:
            # the constructor produced something the rewriting cannot even address (e.g. a constraint over a variable that does not
            # exist): the model "as written" is not the model "as built"
            viol.append({"kind": "rewrite", "problem": prob.to_json(), "theme": theme,
                         "detail": f"the problem built by the constructor is malformed (a constraint refers to a variable outside the variable list?): {type(e).__name__}: {e}"})
            rw_list = []
        for name, q, back in rw_list:
            cfg_q = cfg
            if name in ("unshare", "translate"):
                cfg_q = nv.Cfg(cons=cfg.cons)  # cost tables / decision lists do not carry over to the new shape
            cases.append({"op": "solve", "problem": q.to_json(), "cfg": ce.cfg_json(cfg_q)})
            meta.append((name, back, base_i, theme))
    res = ce.run_impl(cases, jit=False, tag="C13", case_timeout=120)
    for (name, back, base_i, theme), c, r in zip(meta, cases, res):
        report.cov["evaluations"] += 1
        report.count("rewrite", name)
        if name == "base":
            continue
        b = res[base_i]
        if r[0] in ("hang", "crash") or b[0] in ("hang", "crash"):
            viol.append({"kind": "rewrite", "rewrite": name, "problem": cases[base_i]["problem"], "rewritten": c["problem"], "detail": f"{r[0]} / {b[0]}"})
            continue
        if r[0] != "ok" or b[0] != "ok":
            continue
        report.nontrivial((name, str(c["problem"])))
        got = sorted(back(s) for s in r[1])
        exp = sorted(b[1])
        if got != exp:
            viol.append({"kind": "rewrite", "rewrite": name, "problem": cases[base_i]["problem"], "rewritten": c["problem"], "cfg": cases[base_i]["cfg"],
                         "detail": f"the rewritten model has {len(got)} solutions (after renaming), the original {len(exp)}; e.g. only in rewritten: {[s for s in got if s not in exp][:2]}, only in original: {[s for s in exp if s not in got][:2]}"})
        report.sample({"rewrite": name, "theme": theme, "solutions": len(exp)}, cap=8)
    # Problem.init vs initProblem: constraint order after the sort, flattened positions, parameters, OR-ed trigger matrix
    answers = nv.Model().ask([q for q, _ in init_reqs])
    for (q, prob), ans in zip(init_reqs, answers):
        try:
            impl = init_dump(prob)
        except Exception as e:  # noqa: BLE001
            impl = "exception " + type(e).__name__
        report.cov["evaluations"] += 1
        if impl != ans:
            corr.append({"op": "init", "problem": prob.to_json(), "implementation": impl[:400], "model": ans[:400]})
    report.cov["traces_validated_against_impl"] = len(init_reqs)
    report.cov["rule"] = ("generated problems and shipped examples (queens, magic sequence, Schur, circuit; larger sizes in the thorough tier) are "
                          "rewritten without changing their meaning — constraints permuted, a constraint posted twice, a dummy added, variables "
                          "permuted, a shared domain with offset replaced by a separate variable + equality, all values translated — and solved by "
                          "the real solver; solution multisets must coincide after renaming; Problem.init's arrays (order after the stable sort, "
                          "flattened positions, parameters, OR-ed trigger matrix) are compared with the model's initProblem")
    return {"corr_diffs": corr, "violations": viol, "component": "initProblem / trigMask (NucsModel/ProblemOps.lean, Engine/Core.lean) vs Problem.init"}
