import random

import nv
from props._solver import gen_cases


def run(ctx):
    nv.setup_env(jit=False)
    import corr_engine as ce

    report = ctx["report"]
    rng = random.Random(ctx["seed"] + 1501)
    viol, corr = [], []
    n = 250 * min(2, nv.boost("engine")) if ctx["tier"] == "quick" else 5000
    base = gen_cases(rng, n, with_opt=True, limit_prob=0.15)
    # the two execution modes must also agree at the edge of the engine's capacity (the interpreted engine computes with NumPy scalars
    # of the arrays' 8-bit type, the compiled one with 64-bit integers): deep searches over free Booleans at the largest stack heights
    for n_, h_ in ((200, 256), (256, 256), (258, 256), (258, 255)):
        # unconstrained Booleans: every decision opens one level, the first solution sits at depth n_
        base.append({"op": "solve", "problem": nv.Prob([(0, 1)] * n_, props=[]).to_json(), "cfg": ce.cfg_json(nv.Cfg(height=h_)), "limit": 3})
    # a history: the same cases, shuffled, each one twice, interleaved with registrations, abandoned generators
    # (the `limit` cases) and solvers rebuilt on a reused problem object
    hist = []
    order = list(range(len(base)))
    rng.shuffle(order)
    n_reg = 0
    for i in order:
        c = base[i]
        # at most a dozen registrations per history: the registries are append-only and the harness addresses a shipped function by
        # its LAST index, so hundreds of registrations would push that index beyond the 8-bit arrays of the engine (a capacity
        # question, C19, not a history dependence) — this produced a false alarm in the thorough tier once
        if rng.random() < 0.08 and n_reg < 12:
            n_reg += 1
            hist.append(({"op": "register", "problem": c["problem"], "cfg": c["cfg"]}, None))
        hist.append((c, i))
        if c["op"] == "solve" and c.get("limit") is None and rng.random() < 0.3:
            hist.append((dict(c, op="solve_reuse"), i))
        if rng.random() < 0.3:
            hist.append((c, i))
    ans = nv.Model().ask(ce.model_lines(base))
    runs = {
        "interpreted": ce.run_impl(base, jit=False, tag="C15i"),
        "compiled": ce.run_impl(base, jit=True, tag="C15j", timeout_per_batch=900),
        "interpreted-history": None,
        "compiled-history": None,
    }
    hres_i = ce.run_impl([c for c, _ in hist], jit=False, tag="C15hi")
    hres_j = ce.run_impl([c for c, _ in hist], jit=True, tag="C15hj", timeout_per_batch=900) if ctx["tier"] == "thorough" or True else None
    for mode in ("interpreted", "compiled"):
        for c, r, a in zip(base, runs[mode], ans):
            report.cov["evaluations"] += 1
            il = ce.impl_line(c, r)
            report.count("mode", mode)
            if r[0] in ("hang", "crash"):
                viol.append({"kind": "mode", "mode": mode, "problem": c["problem"], "cfg": c["cfg"], "detail": f"{r[0]}: {r[1]}"})
            elif il != a:
                corr.append({"mode": mode, "op": c["op"], "problem": c["problem"], "cfg": c["cfg"], "limit": c.get("limit"), "implementation": il[:300], "model": a[:300]})
            if r[0] == "ok" and r[2][10] > 0:
                report.nontrivial((mode, ce.model_lines([c])[0]))
    # both modes must agree with each other (independently of the model)
    for c, ri, rj in zip(base, runs["interpreted"], runs["compiled"]):
        if ri[0] in ("ok", "err") and rj[0] in ("ok", "err") and ce.impl_line(c, ri) != ce.impl_line(c, rj):
            viol.append({"kind": "mode", "problem": c["problem"], "cfg": c["cfg"], "op": c["op"],
                         "detail": f"interpreted and compiled runs differ: {ce.impl_line(c, ri)[:200]} vs {ce.impl_line(c, rj)[:200]}"})
    for mode, hres in (("interpreted", hres_i), ("compiled", hres_j)):
        if hres is None:
            continue
        for (c, i), r in zip(hist, hres):
            if i is None:
                report.cov["evaluations"] += 1
                report.count("history_op", "register")
                if r[0] == "err" and "registry-contract" in str(r[1]):
                    viol.append({"kind": "history", "mode": mode, "op": "register",
                                 "detail": f"a registration does not return the index of the function just registered, or disturbs earlier entries: {r[1]}"})
                continue
            report.cov["evaluations"] += 1
            report.count("history_op", c["op"])
            ref = runs[mode][i]
            il = ce.impl_line(c, r)
            exp = ce.impl_line(base[i], ref)
            if il != exp:
                viol.append({"kind": "history", "mode": mode, "op": c["op"], "problem": c["problem"], "cfg": c["cfg"], "limit": c.get("limit"),
                             "detail": f"result depends on what ran earlier in the process: {il[:200]} vs {exp[:200]} when run in generation order"})
    # "constructing a solver does not change the meaning of the problem object": split a problem object that an earlier solver used
    # (partial enumeration, abandoned) and solve the parts; compare with the parts of a fresh object
    sp = []
    for c in base:
        if c["op"] == "solve" and len(sp) < (40 if ctx["tier"] == "quick" else 800):
            nvars = len(c["problem"]["dom_indices"])
            sp.append(dict(c, op="split_solve", k=rng.randint(2, 3), v=rng.randrange(nvars), limit=None))
    fresh = ce.run_impl([dict(c, prior=False) for c in sp], jit=False, tag="C15s")
    used = ce.run_impl([dict(c, prior=True) for c in sp], jit=False, tag="C15t")
    for c, a, b in zip(sp, fresh, used):
        report.cov["evaluations"] += 2
        report.count("history_op", "split_after_solver")
        if a[0] in ("ok", "err") and b[0] in ("ok", "err") and list(a[1:]) != list(b[1:]):
            viol.append({"kind": "history", "op": "split_solve", "problem": c["problem"], "cfg": c["cfg"], "k": c["k"], "v": c["v"],
                         "detail": f"Problem.split gives different sub-problems when a solver was built on the object before: {str(b[1])[:150]} vs {str(a[1])[:150]} on a fresh object"})
    # a custom propagator reusing a shipped compute function with its own triggers, with and without an earlier registration of
    # another variant of the same compute function (interpreted mode: a Python trigger function needs no compilation)
    cv = [dict(c, op="custom_variant", limit=None) for c in base
          if c["op"] == "solve" and any(a == "affine_leq" for _, a, _ in c["problem"]["propagators"])][: (30 if ctx["tier"] == "quick" else 600)]
    cv_fresh = ce.run_impl([dict(c, prior=False) for c in cv], jit=False, tag="C15v")
    cv_used = ce.run_impl([dict(c, prior=True) for c in cv], jit=False, tag="C15w")
    for c, a, b in zip(cv, cv_fresh, cv_used):
        report.cov["evaluations"] += 2
        report.count("history_op", "custom_variant_registration")
        if a[0] == "ok" and b[0] == "ok" and list(a[1:3]) != list(b[1:3]):
            viol.append({"kind": "history", "op": "custom_variant", "problem": c["problem"], "cfg": c["cfg"],
                         "detail": f"a custom propagator (shipped compute function + own triggers) behaves differently after another variant of the same compute function was registered: statistics {b[2]} vs {a[2]}"})
    # heuristic parameters passed as an int64 array that the caller overwrites after the solver was built
    ap = []
    for c in base:
        pj = c["problem"]
        if c["op"] == "solve" and all(lo >= 0 for lo, hi in pj["shr_domains"]) and len(ap) < (25 if ctx["tier"] == "quick" else 500):
            maxv = max(hi for lo, hi in pj["shr_domains"])
            costs = [[rng.choice([1, 2, 3, 5, 8]) for _ in range(maxv + 1)] for _ in pj["shr_domains"]]
            ap.append(dict(c, op="alias_params", costs=costs, limit=None))
    ap_a = ce.run_impl([dict(c, overwrite=False) for c in ap], jit=False, tag="C15a")
    ap_b = ce.run_impl([dict(c, overwrite=True) for c in ap], jit=False, tag="C15b")
    for c, a, b in zip(ap, ap_a, ap_b):
        report.cov["evaluations"] += 2
        report.count("history_op", "parameter_buffer_reused")
        if a[0] == "ok" and b[0] == "ok" and list(a[1:3]) != list(b[1:3]):
            viol.append({"kind": "history", "op": "alias_params", "problem": c["problem"], "cfg": c["cfg"], "costs": c["costs"],
                         "detail": "a solver configured with cost tables given as an int64 array changes its behaviour when the caller overwrites that "
                                   f"array after construction: {str(b[1])[:120]} vs {str(a[1])[:120]}"})
    # one filtering call, interpreted versus compiled, for every algorithm (small scope sample + random + wide magnitudes)
    import json
    import os
    import subprocess
    import sys

    import gen
    import props_sweep

    per_alg = 120 if ctx["tier"] == "quick" else 3000
    calls = []
    for alg in gen.ALGS:
        scope = list(gen.prop_scope(alg))
        cs = rng.sample(scope, min(per_alg, len(scope))) + [gen.prop_random(alg, rng) for _ in range(per_alg // 2)]
        cs += [w for w in (gen.prop_wide(alg, rng) for _ in range(per_alg // 4)) if w is not None]
        for ps, b in cs:
            if props_sweep.known_finding(alg, ps, b) is None:
                calls.append([alg, list(ps), [list(d) for d in b]])
    work = os.path.join(nv.VERIF, ".cache", "work")
    os.makedirs(work, exist_ok=True)
    basef = os.path.join(work, f"C15c-{os.getpid()}")
    json.dump(calls, open(basef + ".cases", "w"))
    jres = None
    try:
        rr = subprocess.run([sys.executable, os.path.join(os.path.dirname(os.path.abspath(nv.__file__)), "jit_calls.py"), basef + ".cases", basef + ".out"],
                            capture_output=True, text=True, timeout=1500)
        if rr.returncode == 0 and os.path.exists(basef + ".out"):
            jres = json.load(open(basef + ".out"))
    except subprocess.TimeoutExpired:
        pass
    for ext in (".cases", ".out"):
        if os.path.exists(basef + ext):
            os.remove(basef + ext)
    if jres is None:
        report.count("jit_call_worker_failed", None, 1)
    else:
        for (alg, ps, b), (stj, outj) in zip(calls, jres):
            sti, outi = nv.impl_prop(alg, ps, [tuple(d) for d in b])
            report.cov["evaluations"] += 2
            report.count("single_calls_both_modes", alg)
            if sti == "oob" or stj == "oob" or sti == "hang" or stj == "hang":
                continue  # C16 / C04 territory: interpreted bounds checks have no compiled counterpart
            if sti != stj or (sti != 0 and [list(d) for d in outi] != [list(d) for d in outj]):
                viol.append({"kind": "mode", "alg": alg, "params": ps, "box": b,
                             "detail": f"one call differs between modes: interpreted {sti} {outi} vs compiled {stj} {outj}"})
    report.cov["traces_validated_against_impl"] = 2 * len(base)
    report.cov["rule"] = ("generated solve / partial-enumeration / optimisation cases run (a) interpreted (NUMBA_DISABLE_JIT=1), (b) compiled, "
                          "(c) in both modes again inside one long-lived process in shuffled order, each case possibly twice, interleaved with "
                          "registrations of propagators/heuristics/consistency algorithms, abandoned generators, a second solver built on a "
                          "reused problem object, and Problem.split applied to an object an earlier solver used; every run must produce the model's single answer (solution sequence and 13 statistics)")
    return {"corr_diffs": corr, "violations": viol, "component": "solveAll/optimize (functions of their input) vs BacktrackSolver in both execution modes",
            "partial": ["that compiled and interpreted execution agree, and that no hidden process state exists, cannot be exhibited by the model: tested, not proved",
                        "interpreted mode computes linear sums in int32 beyond NoOverflow (known finding K2, outside the input contract)"]}
