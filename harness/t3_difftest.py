"""
T3 differential test: the Lean ports `Nucs.alldifferent` / `Nucs.gcc`
(lean/NucsModel/Propagators/{Alldifferent,Gcc}.lean) against the real
`compute_domains_alldifferent` / `compute_domains_gcc` of /repo.

Run (interpreted Python, the functions are then plain Python):

    cd /verif/lean && lake build NucsModel.Propagators.Alldifferent NucsModel.Propagators.Gcc
    NUMBA_DISABLE_JIT=1 /venv/bin/python /verif/harness/t3_difftest.py [--seed S] [--random N] [--jit] [--keep]

Three Python "sides" are compared with the one Lean result of every case:

  stable   the unmodified functions, except that the name `np` seen by the two propagator modules
           is a shim whose `argsort` is `np.argsort(kind="stable")`.  This is what the model
           claims to be (and what the Numba-compiled code does for n <= 15: insertion sort).
           THE MAIN COMPARISON: in-contract cases only, must show 0 differences.
  plain    the unmodified functions, untouched NumPy.  On AVX512/AVX2 machines NumPy >= 2.0 sorts
           int32 keys with a SIMD bitonic network, so the order of ties differs from the model;
           the comparison shows whether that order can change the result (in-contract cases).
  checked  as `stable`, but every array the functions allocate (and `domains`) is an ndarray
           subclass that raises on a NEGATIVE index (NumPy would wrap it; the model says `oob`),
           raises when a negative value is stored in an unsigned array or an unsigned scalar
           subtraction wraps (`ovf`: integer widths are not modelled; such cases are not counted
           as differences, they are re-run with the wrap-around allowed and listed), and gives up
           after ACCESS_BUDGET array accesses (`fuel`: the Python is spinning).  Used for the
           OUT-OF-CONTRACT cases (gcc with a zero capacity, values not covering the domains, empty
           domains), where the plain Python may loop forever; also run on the in-contract cases
           to show that oob/fuel/ovf never happen there.

  --jit    additionally runs the in-contract cases through the Numba-COMPILED functions in a
           subprocess (cold compile takes a minute or two) and compares them with Lean as well.

The literal `psum[0, -1]` / `psum[1, -1]` accesses and the `[:-1]` slices are legitimate and are
not flagged by `checked`; `psum[1, value]` with `value == -1` inside skip_non_null_elements_* is.

Case file / Lean driver protocol, one case per line:  `a|g;params;lo0 hi0 lo1 hi1 ...`
Lean answers `status lo0 hi0 ...`, `oob` or `fuel`.
"""
import argparse
import itertools
import os
import random
import shutil
import signal
import subprocess
import sys
import tempfile
import time
import warnings

import numpy as np

REPO = os.environ.get("NUCS_REPO", "/repo")
LEAN_DIR = os.environ.get("NUCS_LEAN_DIR", "/verif/lean")
if REPO not in sys.path:
    sys.path.insert(0, REPO)

ACCESS_BUDGET = 50_000  # array accesses per call before `checked` says "fuel" (terminating runs: see "max accesses")
WATCHDOG_S = 20  # SIGALRM backstop per call (interpreted mode only)

DRIVER = r"""
import NucsModel.Propagators.Alldifferent
import NucsModel.Propagators.Gcc
open Nucs

def parseInts (s : String) : List Int :=
  (s.splitOn " ").filterMap (fun w => if w.isEmpty then none else w.toInt?)

def toBox : List Int → Box
  | a :: b :: r => (a, b) :: toBox r
  | _ => []

def fmt (r : Res) : String :=
  match r with
  | .error .oob => "oob"
  | .error .fuel => "fuel"
  | .ok (s, B) =>
    toString s.code ++ B.foldl (fun acc d => acc ++ " " ++ toString d.1 ++ " " ++ toString d.2) ""

partial def loop (hin hout : IO.FS.Stream) : IO Unit := do
  let line ← hin.getLine
  if line.isEmpty then return
  let line := (line.replace "\n" "").replace "\r" ""
  match line.splitOn ";" with
  | [k, ps, bs] =>
    let ps := parseInts ps
    let B := toBox (parseInts bs)
    let r := if k == "a" then alldifferent ps B else gcc ps B
    hout.putStrLn (fmt r)
  | _ => hout.putStrLn "parse-error"
  loop hin hout

def main : IO Unit := do
  loop (← IO.getStdin) (← IO.getStdout)
"""


# ----------------------------------------------------------------------------- Python sides
class NegIndex(IndexError):
    pass


class Spin(Exception):
    pass


class Ovf(Exception):
    pass


class Timeout(Exception):
    pass


_accesses = [0]
_max_accesses = [0]  # over the calls that returned
_width_checks = [True]  # `checked`: raise Ovf on unsigned wrap-around; off for the `checked-nowidth` re-run


def _is_int(v):
    return isinstance(v, (int, np.integer)) and not isinstance(v, (bool, np.bool_))


class Chk(np.ndarray):
    """ndarray that refuses negative indices (except the literal last-column accesses)"""

    def _check(self, idx):
        _accesses[0] += 1
        if _accesses[0] > ACCESS_BUDGET:
            raise Spin()
        if isinstance(idx, tuple):
            r, c = idx[0], idx[1]
            if _is_int(r) and r < 0:
                raise NegIndex()
            if _is_int(c) and c < 0:
                literal = c == -1 and not (
                    r == 1 and sys._getframe(2).f_code.co_name.startswith("skip_non_null")
                )
                if not literal:
                    raise NegIndex()
        elif _is_int(idx) and idx < 0:
            raise NegIndex()

    def __getitem__(self, idx):
        self._check(idx)
        return super().__getitem__(idx)

    def __setitem__(self, idx, value):
        self._check(idx)
        if _width_checks[0] and self.dtype.kind == "u" and _is_int(value) and value < 0:
            raise Ovf()
        super().__setitem__(idx, value)


class NpShim:
    """stands for the module `np` inside the two propagator modules"""

    def __init__(self, checked):
        self.checked = checked

    def __getattr__(self, name):
        return getattr(np, name)

    def argsort(self, a):
        return np.argsort(np.asarray(a), kind="stable")

    def zeros(self, shape, dtype=float):
        z = np.zeros(shape, dtype=dtype)
        return z.view(Chk) if self.checked else z


def _alarm(signum, frame):
    raise Timeout()


def load_functions():
    import nucs.propagators.alldifferent_propagator as AD
    import nucs.propagators.gcc_propagator as GC

    return AD, GC


def run_python(AD, GC, side, kind, params, box):
    """returns the outcome string in the format of the Lean driver"""
    real_np = np
    nowidth = side == "checked-nowidth"  # as `checked`, but unsigned values wrap as NumPy makes them
    if nowidth:
        side = "checked"
    _width_checks[0] = not nowidth
    shim = {"plain": real_np, "stable": NpShim(False), "checked": NpShim(True)}[side]
    AD.np = shim
    GC.np = shim
    fct = AD.compute_domains_alldifferent if kind == "a" else GC.compute_domains_gcc
    domains = np.array(box, dtype=np.int32).reshape((-1, 2))
    if side == "checked":
        domains = domains.view(Chk)
    parameters = np.array(params, dtype=np.int32)
    _accesses[0] = 0
    signal.setitimer(signal.ITIMER_REAL, WATCHDOG_S)
    try:
        with warnings.catch_warnings():
            if side == "checked" and not nowidth:
                warnings.simplefilter("error", RuntimeWarning)  # unsigned scalar wrap-around
            else:
                warnings.simplefilter("ignore", RuntimeWarning)
            status = int(fct(domains, parameters))
        signal.setitimer(signal.ITIMER_REAL, 0)
        _max_accesses[0] = max(_max_accesses[0], _accesses[0])
    except IndexError:
        signal.setitimer(signal.ITIMER_REAL, 0)
        return "oob"
    except (Spin, Timeout):
        signal.setitimer(signal.ITIMER_REAL, 0)
        return "fuel"
    except (Ovf, RuntimeWarning, OverflowError):
        signal.setitimer(signal.ITIMER_REAL, 0)
        return "ovf"
    finally:
        AD.np = real_np
        GC.np = real_np
    return fmt_result(status, np.asarray(domains))


def fmt_result(status, domains):
    return " ".join([str(status)] + [str(int(v)) for v in domains.reshape(-1)])


def same(py, lean):
    """status 0: the box is irrelevant"""
    if py == lean:
        return True
    return py.split(" ")[0] == "0" and lean.split(" ")[0] == "0"


# ----------------------------------------------------------------------------- case generation
def doms(lo, hi):
    return [(a, b) for a in range(lo, hi + 1) for b in range(a, hi + 1)]


def gen_alldifferent(rng, n_random):
    """(in-contract, out-of-contract) lists of (kind, params, box)"""
    inc, out = [], []
    inc.append(("a", [], [(0, 0)]))
    for n in range(1, 5):  # exhaustive: n <= 4, values 0..3
        for box in itertools.product(doms(0, 3), repeat=n):
            inc.append(("a", [], list(box)))
    for _ in range(n_random):  # random: n <= 7
        n = rng.randint(1, 7)
        lo = rng.randint(-4, 4)
        width = rng.randint(1, 9)
        box = []
        for _ in range(n):
            a = rng.randint(lo, lo + width)
            b = rng.randint(a, lo + width)
            box.append((a, b))
        inc.append(("a", [], box))
    # out of contract: no variable, empty domains
    out.append(("a", [], []))
    for n in range(1, 4):
        for box in itertools.product([(a, b) for a in range(3) for b in range(3)], repeat=n):
            if any(a > b for a, b in box):
                out.append(("a", [], list(box)))
    return inc, out


def caps(m, with_zero):
    """all (l, u) vectors with 0 <= l_j <= u_j <= 2; `with_zero`: some u_j = 0, else every u_j >= 1"""
    pairs = [(l, u) for u in range(0, 3) for l in range(0, u + 1)]
    for combo in itertools.product(pairs, repeat=m):
        has_zero = any(u == 0 for _, u in combo)
        if has_zero == with_zero:
            yield [l for l, _ in combo], [u for _, u in combo]


def gen_gcc(rng, n_random):
    inc, out = [], []
    for m in range(1, 4):  # exhaustive: n <= 3, values 0..m-1, m <= 3
        for n in range(1, 4):
            boxes = list(itertools.product(doms(0, m - 1), repeat=n))
            for ls, us in caps(m, False):
                for box in boxes:
                    inc.append(("g", [0] + ls + us, list(box)))
            for ls, us in caps(m, True):
                for box in boxes:
                    out.append(("g", [0] + ls + us, list(box)))
    for _ in range(n_random):  # random: n <= 7, m <= 6, any first value
        n = rng.randint(1, 7)
        m = rng.randint(1, 6)
        fv = rng.randint(-4, 4)
        box = []
        for _ in range(n):
            a = rng.randint(fv, fv + m - 1)
            b = rng.randint(a, fv + m - 1)
            box.append((a, b))
        us = [rng.randint(1, 3) for _ in range(m)]
        ls = [rng.randint(0, u) for u in us]
        if rng.random() < 0.5:  # make it more often satisfiable
            ls = [min(l, rng.randint(0, 1)) for l in ls]
        inc.append(("g", [fv] + ls + us, box))
    for _ in range(n_random // 2):  # out of contract, random
        n = rng.randint(1, 6)
        m = rng.randint(1, 5)
        fv = rng.randint(-3, 3)
        flavour = rng.randint(0, 3)
        box = []
        for _ in range(n):
            if flavour == 1:  # values do not cover the domains
                a = rng.randint(fv - 2, fv + m + 1)
                b = rng.randint(a, fv + m + 1)
            else:
                a = rng.randint(fv, fv + m - 1)
                b = rng.randint(a, fv + m - 1)
                if flavour == 2 and rng.random() < 0.3:  # empty domain
                    a, b = b + 1, a
            box.append((a, b))
        us = [rng.randint(0, 2) for _ in range(m)]
        ls = [rng.randint(0, u) for u in us]
        params = [fv] + ls + us
        if flavour == 3:  # wrong number of parameters
            params = params[: rng.randint(0, len(params))]
        out.append(("g", params, box))
    out.append(("g", [0, 0, 1], []))
    out.append(("g", [], [(0, 0)]))
    return inc, out


def case_line(case):
    kind, params, box = case
    return "%s;%s;%s" % (kind, " ".join(map(str, params)), " ".join("%d %d" % d for d in box))


# ----------------------------------------------------------------------------- Lean side
def run_lean(cases, workdir):
    drv = os.path.join(workdir, "Drv.lean")
    with open(drv, "w") as f:
        f.write(DRIVER)
    cases_path = os.path.join(workdir, "cases.txt")
    with open(cases_path, "w") as f:
        for c in cases:
            f.write(case_line(c) + "\n")
    t0 = time.time()
    with open(cases_path) as fin:
        p = subprocess.run(
            ["lake", "env", "lean", "--run", drv], cwd=LEAN_DIR, stdin=fin, capture_output=True, text=True
        )
    if p.returncode != 0:
        sys.stderr.write(p.stdout[-2000:] + p.stderr[-4000:])
        raise SystemExit("Lean driver failed")
    out = p.stdout.splitlines()
    if len(out) != len(cases):
        raise SystemExit("Lean driver answered %d lines for %d cases" % (len(out), len(cases)))
    print("lean: %d cases in %.1f s" % (len(cases), time.time() - t0), flush=True)
    return out


# ----------------------------------------------------------------------------- JIT side
def jit_worker(cases_path, out_path):
    """runs in a subprocess WITHOUT NUMBA_DISABLE_JIT: the compiled functions, in-contract cases only"""
    from nucs.propagators.alldifferent_propagator import compute_domains_alldifferent
    from nucs.propagators.gcc_propagator import compute_domains_gcc

    if type(compute_domains_gcc).__name__ != "CPUDispatcher":
        raise SystemExit("the jit worker is not running compiled code")
    with open(cases_path) as f, open(out_path, "w") as g:
        for line in f:
            kind, ps, bs = line.rstrip("\n").split(";")
            params = np.array([int(v) for v in ps.split()], dtype=np.int32)
            domains = np.array([int(v) for v in bs.split()], dtype=np.int32).reshape((-1, 2))
            fct = compute_domains_alldifferent if kind == "a" else compute_domains_gcc
            status = int(fct(domains, params))
            g.write(fmt_result(status, domains) + "\n")


def run_jit(cases, workdir):
    cases_path = os.path.join(workdir, "jit_cases.txt")
    out_path = os.path.join(workdir, "jit_out.txt")
    with open(cases_path, "w") as f:
        for c in cases:
            f.write(case_line(c) + "\n")
    env = dict(os.environ)
    env.pop("NUMBA_DISABLE_JIT", None)
    env["NUMBA_CACHE_DIR"] = os.path.join(workdir, "numba_cache")
    t0 = time.time()
    subprocess.run(
        [sys.executable, os.path.abspath(__file__), "--jit-worker", cases_path, out_path], env=env, check=True,
        timeout=3600,
    )
    print("jit: %d cases in %.1f s" % (len(cases), time.time() - t0), flush=True)
    with open(out_path) as f:
        return f.read().splitlines()


# ----------------------------------------------------------------------------- main
def compare(title, cases, py, lean, show=8):
    """`ovf` outcomes (the Python run depends on the uint16 wrap-around, which the model does not have) are
    not differences; they are counted and re-examined by `width_cases`"""
    diffs = [(c, p, l) for c, p, l in zip(cases, py, lean) if p != "ovf" and not same(p, l)]
    print("%-44s compared %6d   differences %d" % (title, len(cases), len(diffs)))
    for c, p, l in diffs[:show]:
        print("    DIFF %s\n         python: %s\n         lean:   %s" % (case_line(c), p, l))
    return len(diffs)


def width_cases(AD, GC, cases, py, lean):
    """the cases where `checked` stopped on an unsigned wrap-around: let NumPy wrap and see where it goes"""
    sel = [(c, l) for c, p, l in zip(cases, py, lean) if p == "ovf"]
    if not sel:
        return
    py2 = [run_python(AD, GC, "checked-nowidth", *c) for c, _ in sel]
    agree = sum(1 for p, (_, l) in zip(py2, sel) if same(p, l))
    print("    %d width-dependent cases (uint16 wrap-around, NOT modelled): letting NumPy wrap, %d agree with lean"
          % (len(sel), agree))
    for p, (c, l) in list(zip(py2, sel))[:6]:
        print("      %s   python[checked-nowidth]: %s   lean: %s" % (case_line(c), p, l))


def histogram(outcomes):
    h = {}
    for o in outcomes:
        k = o if o in ("oob", "fuel", "ovf") else "status " + o.split(" ")[0]
        h[k] = h.get(k, 0) + 1
    return ", ".join("%s: %d" % kv for kv in sorted(h.items()))


def main():
    ap = argparse.ArgumentParser()
    ap.add_argument("--seed", type=int, default=20260929)
    ap.add_argument("--random", type=int, default=12000, help="random in-contract cases per propagator")
    ap.add_argument("--jit", action="store_true", help="also compare the Numba-compiled functions (slow start)")
    ap.add_argument("--keep", action="store_true", help="keep the temporary directory")
    ap.add_argument("--jit-worker", nargs=2, metavar=("CASES", "OUT"))
    args = ap.parse_args()
    if args.jit_worker:
        jit_worker(*args.jit_worker)
        return 0
    if os.environ.get("NUMBA_DISABLE_JIT") != "1":
        raise SystemExit("run with NUMBA_DISABLE_JIT=1 (the checked side needs the plain Python functions)")
    signal.signal(signal.SIGALRM, _alarm)
    rng = random.Random(args.seed)
    a_in, a_out = gen_alldifferent(rng, args.random)
    g_in, g_out = gen_gcc(rng, args.random)
    groups = [
        ("alldifferent in-contract", a_in),
        ("gcc in-contract (every u_j >= 1)", g_in),
        ("alldifferent out-of-contract", a_out),
        ("gcc out-of-contract (u_j = 0, ...)", g_out),
    ]
    all_cases = [c for _, cs in groups for c in cs]
    workdir = tempfile.mkdtemp(prefix="t3drv_")
    total = 0
    try:
        lean_all = run_lean(all_cases, workdir)
        AD, GC = load_functions()
        pos = 0
        for title, cases in groups:
            lean = lean_all[pos : pos + len(cases)]
            pos += len(cases)
            print("== %s: %d cases;  lean outcomes: %s" % (title, len(cases), histogram(lean)))
            t0 = time.time()
            if "in-contract" in title:
                for side in ("stable", "plain", "checked"):
                    py = [run_python(AD, GC, side, *c) for c in cases]
                    d = compare("  python[%s] vs lean" % side, cases, py, lean)
                    if side == "plain":
                        print("    (plain = NumPy's own argsort; differences here are tie-order effects, not counted)")
                    else:
                        total += d
                    if side == "checked":
                        print("    python[checked] outcomes: %s" % histogram(py))
                        width_cases(AD, GC, cases, py, lean)
            else:
                py = [run_python(AD, GC, "checked", *c) for c in cases]
                total += compare("  python[checked] vs lean", cases, py, lean)
                print("    python[checked] outcomes: %s" % histogram(py))
                width_cases(AD, GC, cases, py, lean)
            print("    (%.1f s; max accesses of a returning checked call so far: %d)"
                  % (time.time() - t0, _max_accesses[0]), flush=True)
        if args.jit:
            cases = a_in + g_in
            lean = lean_all[: len(cases)]
            ok = [(c, l) for c, l in zip(cases, lean) if l not in ("oob", "fuel")]
            jit = run_jit([c for c, _ in ok], workdir)
            print("== Numba-compiled functions, in-contract cases")
            total += compare("  python[jit] vs lean", [c for c, _ in ok], jit, [l for _, l in ok])
    finally:
        if args.keep:
            print("kept", workdir)
        else:
            shutil.rmtree(workdir, ignore_errors=True)
    print("TOTAL differences (stable + checked%s): %d" % (" + jit" if args.jit else "", total))
    return 1 if total else 0


if __name__ == "__main__":
    sys.exit(main())
