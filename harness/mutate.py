#!/usr/bin/env python3
"""
Mutation sanity run of the correspondence + direct evaluation (development tool, not a registered check).

  mutate.py list  <repo-relative file> ...            print the mutants of these files
  mutate.py run   --out DIR [--jobs N] [--sample K] [--seed S] <file> ...

Generates first-order mutants of /repo source files (comparison and arithmetic operator swaps, off-by-one constants, MIN/MAX and
event/status constant swaps, and/or swaps, dropped `not`, dropped statements, dropped break/continue), applies each one in a scratch
worktree of /repo (never in /repo), runs the QUICK checks of the properties anchored in that file against the worktree
(NUCS_REPO / VERIF_OUT) — cheapest first, stopping at the first alarm — and records which check killed it.  Survivors are listed
for review: each is either an equivalent mutant (the property still holds) or a blind spot of the generators.
The `get_complexity_*` functions are skipped (float keys are not modelled: they only order the constraints).
"""
import argparse
import ast
import json
import os
import random
import shutil
import subprocess
import sys
import threading
import time

REPO = "/repo"
VERIF = os.path.dirname(os.path.dirname(os.path.abspath(__file__)))

CMP = {ast.Lt: "<=", ast.LtE: "<", ast.Gt: ">=", ast.GtE: ">", ast.Eq: "!=", ast.NotEq: "=="}
CMP_TXT = {ast.Lt: "<", ast.LtE: "<=", ast.Gt: ">", ast.GtE: ">=", ast.Eq: "==", ast.NotEq: "!="}
BIN = {ast.Add: ("+", "-"), ast.Sub: ("-", "+")}
NAME_SWAP = {"MIN": "MAX", "MAX": "MIN", "EVENT_MASK_MIN": "EVENT_MASK_MAX", "EVENT_MASK_MAX": "EVENT_MASK_MIN",
             "EVENT_MASK_MIN_MAX": "EVENT_MASK_GROUND", "EVENT_MASK_GROUND": "EVENT_MASK_MIN_MAX",
             "PROP_CONSISTENCY": "PROP_ENTAILMENT", "PROP_ENTAILMENT": "PROP_CONSISTENCY", "PROP_INCONSISTENCY": "PROP_CONSISTENCY",
             "PROBLEM_BOUND": "PROBLEM_UNBOUND", "PROBLEM_UNBOUND": "PROBLEM_BOUND", "PROBLEM_INCONSISTENT": "PROBLEM_UNBOUND",
             "True": "False", "False": "True"}


def props_for(path):
    if path.startswith("nucs/propagators/propagators.py"):
        return ["C08", "C01", "C02", "C17", "C15", "C13"]
    if path.startswith("nucs/propagators/"):
        return ["C14", "C05", "C06", "C07", "C08", "C16", "C04"]
    if path.startswith("nucs/heuristics/"):
        return ["C09", "C02", "C04", "C16", "C15"]
    if "shaving" in path:
        return ["C10", "C02", "C17", "C04"]
    if "bound_consistency" in path:
        return ["C08", "C01", "C02", "C17", "C04", "C16"]
    if "multiprocessing" in path:
        return ["C11", "C18"]
    if path.startswith("nucs/solvers/"):
        return ["C02", "C01", "C03", "C09", "C17", "C19", "C11", "C15", "C04"]
    if path.startswith("nucs/problems/problem.py"):
        return ["C13", "C12", "C01", "C15"]
    return ["C20"]


def mutants_of(path):
    src = open(os.path.join(REPO, path)).read()
    lines = src.split("\n")
    tree = ast.parse(src)
    out = []

    def seg(node):
        if node.lineno != node.end_lineno:
            return None
        return lines[node.lineno - 1][node.col_offset:node.end_col_offset]

    def add(line, c0, c1, new, kind):
        old = lines[line - 1][c0:c1]
        out.append({"file": path, "line": line, "c0": c0, "c1": c1, "old": old, "new": new, "kind": kind})

    class V(ast.NodeVisitor):
        def __init__(self):
            self.skip = 0

        def visit_FunctionDef(self, node):
            if node.name.startswith("get_complexity") or node.name in ("__repr__", "__str__", "solution_as_matrix", "solution_as_printable", "pretty_print"):
                return
            for st in node.body:  # not the decorators (njit(cache=True)) nor the defaults
                self.visit(st)

        def visit_Compare(self, node):
            if len(node.ops) == 1 and type(node.ops[0]) in CMP and node.left.end_lineno == node.comparators[0].lineno:
                l = node.left.end_lineno
                a, b = node.left.end_col_offset, node.comparators[0].col_offset
                txt = lines[l - 1][a:b]
                op = CMP_TXT[type(node.ops[0])]
                if txt.count(op) == 1:
                    i = a + txt.index(op)
                    add(l, i, i + len(op), CMP[type(node.ops[0])], "cmp")
            self.generic_visit(node)

        def visit_BinOp(self, node):
            if type(node.op) in BIN and node.left.end_lineno == node.right.lineno:
                l = node.left.end_lineno
                a, b = node.left.end_col_offset, node.right.col_offset
                txt = lines[l - 1][a:b]
                op, rep = BIN[type(node.op)]
                if txt.count(op) == 1:
                    i = a + txt.index(op)
                    add(l, i, i + 1, rep, "arith")
            self.generic_visit(node)

        def visit_BoolOp(self, node):
            if len(node.values) == 2 and node.values[0].end_lineno == node.values[1].lineno:
                l = node.values[0].end_lineno
                a, b = node.values[0].end_col_offset, node.values[1].col_offset
                txt = lines[l - 1][a:b]
                op = "and" if isinstance(node.op, ast.And) else "or"
                if txt.count(op) == 1:
                    i = a + txt.index(op)
                    add(l, i, i + len(op), "or" if op == "and" else "and", "bool")
            self.generic_visit(node)

        def visit_UnaryOp(self, node):
            if isinstance(node.op, ast.Not) and node.lineno == node.end_lineno:
                add(node.lineno, node.col_offset, node.operand.col_offset, "", "not")
            self.generic_visit(node)

        def visit_Constant(self, node):
            if isinstance(node.value, bool):
                s = seg(node)
                if s in ("True", "False"):
                    add(node.lineno, node.col_offset, node.end_col_offset, NAME_SWAP[s], "const")
            elif isinstance(node.value, int) and 0 <= node.value <= 3 and seg(node) == str(node.value):
                add(node.lineno, node.col_offset, node.end_col_offset, str(node.value + 1), "const")
                if node.value > 0:
                    add(node.lineno, node.col_offset, node.end_col_offset, str(node.value - 1), "const")

        def visit_Name(self, node):
            if node.id in NAME_SWAP and isinstance(node.ctx, ast.Load):
                add(node.lineno, node.col_offset, node.end_col_offset, NAME_SWAP[node.id], "name")

        def stmt(self, node):
            if node.lineno == node.end_lineno:
                add(node.lineno, node.col_offset, node.end_col_offset, "pass", "drop")

        def visit_Assign(self, node):
            if not (isinstance(node.value, ast.Call) and isinstance(node.value.func, ast.Attribute) and node.value.func.attr in ("empty", "zeros", "full", "copy")):
                self.stmt(node)
            self.generic_visit(node)

        def visit_AugAssign(self, node):
            self.stmt(node)
            self.generic_visit(node)

        def visit_Expr(self, node):
            if isinstance(node.value, ast.Call) and isinstance(node.value.func, ast.Attribute) and isinstance(node.value.func.value, ast.Name) \
                    and node.value.func.value.id == "logger":
                return  # logging is not modelled
            if isinstance(node.value, ast.Call):
                self.stmt(node)
            self.generic_visit(node)

        def visit_Break(self, node):
            self.stmt(node)

        def visit_Continue(self, node):
            self.stmt(node)

    v = V()
    for n in tree.body:
        if isinstance(n, (ast.FunctionDef, ast.ClassDef)):
            v.visit(n)
    seen, uniq = set(), []
    for m in out:
        k = (m["line"], m["c0"], m["c1"], m["new"])
        if k not in seen:
            seen.add(k)
            uniq.append(m)
    for i, m in enumerate(uniq):
        m["id"] = f"{os.path.basename(path)[:-3]}:{m['line']}:{m['c0']}:{m['kind']}:{i}"
    return uniq


def apply(wt, m):
    p = os.path.join(wt, m["file"])
    lines = open(p).read().split("\n")
    l = lines[m["line"] - 1]
    assert l[m["c0"]:m["c1"]] == m["old"], (l, m)
    lines[m["line"] - 1] = l[:m["c0"]] + m["new"] + l[m["c1"]:]
    open(p, "w").write("\n".join(lines))
    try:
        compile("\n".join(lines), p, "exec")
        return True
    except SyntaxError:
        return False


def run_one(wt, m, outdir, tests):
    subprocess.run(["git", "-C", wt, "checkout", "-q", "--", "."], check=True)
    if not apply(wt, m):
        return {"id": m["id"], "status": "syntax"}
    vout = os.path.join(outdir, "vout_" + os.path.basename(wt))
    env = dict(os.environ, NUCS_REPO=wt, VERIF_OUT=vout, VERIF_SEED="0")
    res = {"id": m["id"], "file": m["file"], "line": m["line"], "old": m["old"], "new": m["new"], "kind": m["kind"], "checks": {}}
    killed = None
    t0 = time.time()
    for p in props_for(m["file"]):
        r = subprocess.run([os.path.join(VERIF, "check"), p, "--tier", "quick"], env=env, capture_output=True, text=True)
        v = [l for l in r.stdout.splitlines() if l.startswith("VIOLATION")]
        res["checks"][p] = {"rc": r.returncode, "nfi": bool(v and "no-failing-input-found" in v[0])}
        if r.returncode == 1:
            killed = p
            break
        if r.returncode == 2:
            res["checks"][p]["tail"] = r.stdout[-300:]
            killed = p  # a crash/timeout of the check on the mutant: noticed, though not in protocol form
            break
    res["killed_by"] = killed
    res["wall"] = round(time.time() - t0, 1)
    if killed is None and tests:
        e2 = dict(os.environ, NUMBA_CACHE_DIR=os.path.join(wt, ".nbcache"))
        r = subprocess.run(["/venv/bin/python", "-m", "pytest", "-q", "-x", "-p", "no:cacheprovider", "--timeout=900"], cwd=wt, env=e2, capture_output=True, text=True)
        res["suite"] = r.stdout.strip().splitlines()[-1][:120] if r.stdout.strip() else "?"
        shutil.rmtree(os.path.join(wt, ".nbcache"), ignore_errors=True)
    # the Numba cache of this mutant's tree hash is of no further use
    sys.path.insert(0, os.path.join(VERIF, "harness"))
    return res


def tree_hash_of(wt):
    import hashlib
    h = hashlib.sha256()
    root = os.path.join(wt, "nucs")
    for dp, dn, fn in sorted(os.walk(root)):
        dn.sort()
        if "__pycache__" in dp:
            continue
        for f in sorted(fn):
            if f.endswith(".py"):
                p = os.path.join(dp, f)
                h.update(os.path.relpath(p, root).encode())
                with open(p, "rb") as fh:
                    h.update(fh.read())
    return h.hexdigest()[:16]


def main():
    ap = argparse.ArgumentParser()
    ap.add_argument("cmd", choices=["list", "run"])
    ap.add_argument("files", nargs="+")
    ap.add_argument("--out", default="/root/mut")
    ap.add_argument("--jobs", type=int, default=6)
    ap.add_argument("--sample", type=int, default=0)
    ap.add_argument("--seed", type=int, default=0)
    ap.add_argument("--tests", action="store_true", help="run the repository's own suite on survivors")
    ap.add_argument("--ids", default="", help="comma separated mutant ids: run only these")
    a = ap.parse_args()
    ms = []
    for f in a.files:
        ms += mutants_of(f)
    if a.cmd == "list":
        for m in ms:
            print(m["id"], repr(m["old"]), "->", repr(m["new"]))
        print(len(ms), "mutants")
        return
    if a.ids:
        want = set(a.ids.split(","))
        ms = [m for m in ms if m["id"] in want]
    rng = random.Random(a.seed)
    if a.sample and a.sample < len(ms):
        ms = rng.sample(ms, a.sample)
    os.makedirs(a.out, exist_ok=True)
    done = set()
    logp = os.path.join(a.out, "results.jsonl")
    if os.path.exists(logp):
        for l in open(logp):
            done.add(json.loads(l)["id"])
    todo = [m for m in ms if m["id"] not in done]
    lock = threading.Lock()
    print(len(todo), "mutants to run")

    def worker(k):
        wt = f"/tmp/mut_{os.path.basename(a.out)}_{k}"
        subprocess.run(["git", "-C", REPO, "worktree", "remove", "--force", wt], capture_output=True)
        subprocess.run(["git", "-C", REPO, "worktree", "add", "-q", "--detach", wt, "HEAD"], check=True)
        try:
            while True:
                with lock:
                    if not todo:
                        return
                    m = todo.pop()
                try:
                    res = run_one(wt, m, a.out, a.tests)
                except Exception as e:  # noqa: BLE001
                    res = {"id": m["id"], "status": "harness-error", "detail": repr(e)}
                th = tree_hash_of(wt)
                shutil.rmtree(os.path.join(VERIF, ".cache", "numba-" + th), ignore_errors=True)
                with lock:
                    with open(logp, "a") as f:
                        f.write(json.dumps(res) + "\n")
                    print(res.get("id"), "->", res.get("killed_by", res.get("status")), res.get("wall"), flush=True)
        finally:
            subprocess.run(["git", "-C", REPO, "worktree", "remove", "--force", wt], capture_output=True)
            shutil.rmtree(os.path.join(a.out, "vout_" + os.path.basename(wt)), ignore_errors=True)

    ts = [threading.Thread(target=worker, args=(k,)) for k in range(a.jobs)]
    for t in ts:
        t.start()
    for t in ts:
        t.join()


if __name__ == "__main__":
    main()
