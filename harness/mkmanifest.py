"""regenerates MANIFEST.json from the table below (run by hand when a check is added)"""
import json
import os

VERIF = os.path.dirname(os.path.dirname(os.path.abspath(__file__)))

CLAIMED = {
    "C01": ("solveOne_sound / solveAll_sound / optimize_sound: on the model of the search loop, for every variable and value heuristic and every reachable stack, every yielded or returned vector is `reported P σ` for an assignment σ inside the root domains satisfying every posted constraint (C01_enumeration, C01_optimisation); whole-run correspondence (solution sequence + 13 statistics) and brute-force check of the real solver", "§7 C01"),
    "C04": ("C04_any_scheduler / C04_bcPass: under the engine invariant a propagation pass returns after fewer than (W+1)(n+1) constraint executions for every scheduler (lexicographic measure); C04_shavingPass; C04_search (the search returns within an explicit fuel); Safe per algorithm incl. C04_port_alldifferent / C04_port_gcc (the raw ported pointer chasing never exhausts its loop budgets in contract); whole-solver runs and every single filtering call under a watchdog", "§7 C04"),
    "C05": ("Sound <alg> theorems (Lean) for the proved algorithms + correspondence of every compute_domains_* with the model + brute-force oracle on the implementation", "§7 C05"),
    "C06": ("GroundOk <alg> theorems + C06_point_iff; correspondence on instantiated boxes; oracle", "§7 C06"),
    "C07": ("EntailOk <alg> theorems; status correspondence; oracle", "§7 C07"),
    "C08": ("bcLoopG_inv: for every admissible scheduler a pass preserves `queued ∨ fixpoint`, only shrinks, ends with an empty queue (C08_pass, C08_shipped, C08_greatest); TrigOk per algorithm (K3: no_sub_cycle only in the instantiated form); step-level correspondence of every pass on random walks of the real engine; TrigOk evaluated directly on the real code (sub-boxes reached by unwatched events must be fixpoints) and declared masks vs maskAlg", "§7 C08"),
    "C09": ("BranchOk for the five shipped value heuristics (partition, untouched rest, complete events for the branch taken and every recorded alternative), backtrack restores the saved level and fails iff none is left; step-level correspondence of every decision on random walks of the real engine", "§7 C09"),
    "C11": ("C11_solve/C11_stats/C11_aggregate/C11_optimize_*: for every interleaving of the workers' streams the parent yields a permutation of all solutions, consumes all messages, keeps final statistics, returns an optimal solution; C11_end_to_end_solve/_optimize: composed with C12 and C02/C03 per worker, the multiprocessing result equals the sequential one; the REAL parent loop driven through a scripted queue on enumerated interleavings; every worker's stream compared with the model's search on its part", "§7 C11"),
    "C12": ("C12_split_Sol/_unique/_disjoint + splitBounds_*: the parts are non-empty consecutive intervals covering the domain; the sub-problems' solution sets partition the problem's; exhaustive comparison of Problem.split with the model", "§7 C12"),
    "C14": ("Exact <alg> theorems (support of every bound + idempotence) for 17 algorithms incl. alldifferent (proved on the line-by-line port: the checker never rejects, Hall characterisation of bound consistency), affineEq_oneRound; gcc: proved PER ANSWER from a support certificate computed for every non-failing answer in the sweep (C14_gcc_instance); equality of model and implementation on the exhaustive small scope; brute-force hull; max-flow adjudication beyond the oracle", "§7 C14"),
}
CLAIMED.update({
    "C13": ("C13_*: Sol/SolW/reported invariant under constraint permutation, the sort of Problem.init, duplication, dummy, variable permutation, shared-domain renaming, unsharing, translation; metamorphic runs of the real solver on rewritten models and shipped examples; Problem.init arrays vs initProblem", "§7 C13"),
    "C16": ("PARTIAL: C16_safe_<alg> (19 algorithms), C16_port_alldifferent / C16_port_gcc / C16_port_full_proved (every array access of the raw ported Hall-interval algorithms is in bounds in contract), C16_branch_index, C16_stack; sign- and bounds-checked arrays under the interpreted engine on every propagator and on whole searches; integer widths of the arrays are tested (wide-magnitude cases), not modelled", "§7 C16"),
    "C19": ("PARTIAL: C19_stack_bound, C19_overflow_reported, C19_push_at_most_two, C19_pointer_fits_uint8 on the model of solve_one; heights {2..8,127,128,255,256,257,300,512} x depths around the limit (two- and three-way splits, both parities) in interpreted and compiled mode; 16-bit index widths tested, not modelled", "§7 C19"),
    "C20": ("PARTIAL: C20_<model>: Sol ↔ Valid for all 15 shipped models (all parameters); symmetry breaking preserves satisfiability/optimum proved for Golomb (mirror), magic squares (dihedral images), Schur (colour renaming) and BIBD (double-lex theorem) for all parameters (C20_*_sb_preserves); the Golomb model's own consistency algorithm modelled as a third ConsAlg, its pruning proved sound (C20_golomb_prune_sound) and the example run with it partially correct (C20_golomb_own_enumeration/_optimum); known counts for small instances by kernel evaluation (C20_count_*: queens 4..8, Latin squares 2..3, magic sequences 4..7, Schur 3..4, Golomb-4 optimum) and C20_solver_count; constructor arrays of all 15 models compared with the Lean models; solutions validated by independent validators; larger counts vs OEIS/literature and symmetry-breaking preservation tested; optima vs brute force", "§7 C20"),
    "C02": ("C02_enumeration(_bc/_guarded): solveAll from the root returns L.map reported with L duplicate-free and exactly the solutions, with explicit fuel/height bounds; C02_strategy_independent: any two configurations and posting orders yield permutations of the same list; whole-run correspondence + brute force on the real solver", "§7 C02"),
    "C03": ("C03_optimum(_bc/_guarded): optimize returns none iff infeasible, else a solution of optimal value, and terminates; correspondence of minimize/maximize incl. unwatched and shared-offset objectives; brute-force optimum", "§7 C03"),
    "C10": ("C10_stack_unchanged, C10_le_bc, C10_keeps_solutions, C10_consOk_shaving (+ search corollaries): shaving leaves the stack as found, returns sub-domains of bound consistency's, never loses a solution; whole runs with shaving compared with the model and with plain BC", "§7 C10"),
    "C15": ("PARTIAL: C15_deterministic, C15_init_twice/C15_reuse, C15_stableSort_stable, C15_registry_*; compiled vs interpreted vs model on every case, histories (registrations, abandoned generators, reused problem objects, split after a solver used the object) in one process — tested, not proved", "§7 C15"),
    "C17": ("C17_pass_exact (ghost trace of executions = counters), C17_solveOne/C17_solveAll (SOLUTION, BC = CHOICE + BACKTRACK + 1), C17_depth, C17_shaving_*; the 13 statistics of every whole run compared with the model's AND with event counts observed by interposition on the interpreted engine (passes, executions by outcome, no-change, choices, depth, backtracks, probes)", "§7 C17"),
    "C18": ("C18_halts_within_two_polls, C18_safety, C18_message_clears_suspicion on the parent state machine with time-outs; real worker processes killed at three points under a deadline watchdog; PARTIAL: OS behaviour of is_alive()/get(timeout) is tested, not proved", "§7 C18"),
})
NOT_YET = {}


def main():
    props = [json.loads(l)["id"] for l in open(os.path.join(VERIF, "properties.jsonl"))]
    checks = []
    for p in props:
        if p in CLAIMED:
            text, ref = CLAIMED[p]
            checks.append({
                "property_id": p,
                "quick_cmd": f"./check {p} --tier quick",
                "thorough_cmd": f"./check {p} --tier thorough",
                "evidence_file": f"evidence/{p}.json",
                "replay_cmd_template": f"./check {p} --replay {{path}}",
                "engine": "lean-model",
                "level_claimed": {"category": "proof", "text": text, "design_ref": ref},
                "level_note": "Lean 4.33 kernel; axioms ⊆ {propext, Classical.choice, Quot.sound}; the theorems are about the hand-written model in lean/NucsModel, tied to /repo by the differential correspondence run on every invocation; Numba/NumPy/OS behaviour is modelled, not verified (DESIGN.md §5)",
                "technique": "Lean 4 theorem about an executable model + differential correspondence with the implementation",
            })
    na = [{"property_id": p, "reason": NOT_YET.get(p, "check not built yet in this revision (work in progress, see DESIGN.md §10 order of work)")} for p in props if p not in CLAIMED]
    m = {
        "version": 1,
        "setup_cmd": "./setup.sh",
        "hooks": {
            "guard": "NUCS_VERIF",
            "enable": "no instrumentation is compiled into /repo: interposition happens in the harness process; the variable is unused",
            "baseline_off_cmd": "cd /repo && /venv/bin/python -m pytest -ra -q -p no:cacheprovider --timeout=900 --continue-on-collection-errors",
            "source_commits": [],
            "add_only": True,
        },
        "engines": [{"name": "lean-model", "path": "lean/", "serves_properties": sorted(CLAIMED), "kind_free_text": "Lean 4 model + theorems (lean/NucsModel, lean/NucsProofs), compiled driver, Python correspondence harness (harness/)"}],
        "checks": checks,
        "notes": "fix: commits in /repo repair genuine defects found by these checks; see known_findings.json and DESIGN.md §8",
        "not_applicable": na,
    }
    with open(os.path.join(VERIF, "MANIFEST.json"), "w") as f:
        json.dump(m, f, indent=1)


if __name__ == "__main__":
    main()
