"""
Shared harness code: tie to the source tree (tree hash -> Numba cache), the model driver process,
encoders of the line protocol, adapters that call the REAL nucs code, evidence writer.

Everything here runs under /venv/bin/python against /repo's working tree.
"""
import hashlib
import json
import os
import subprocess
import sys
import time

VERIF = os.path.dirname(os.path.dirname(os.path.abspath(__file__)))
REPO = os.environ.get("NUCS_REPO", "/repo")
# where evidence/ and replays/ are written (mutation and seed runs on scratch worktrees redirect it; registered checks never set it)
OUT = os.environ.get("VERIF_OUT", VERIF)
LEAN_DIR = os.path.join(VERIF, "lean")
DRIVER = os.path.join(LEAN_DIR, ".lake", "build", "bin", "driver")


def tree_hash():
    h = hashlib.sha256()
    root = os.path.join(REPO, "nucs")
    for dp, dn, fn in sorted(os.walk(root)):
        dn.sort()
        if "__pycache__" in dp:
            continue
        for f in sorted(fn):
            if f.endswith(".py"):
                p = os.path.join(dp, f)
                h.update(os.path.relpath(p, root).encode())
                with open(p, "rb") as fh:
                    h.update(fh.read())
    return h.hexdigest()[:16]


def file_hashes():
    out = {}
    root = os.path.join(REPO, "nucs")
    for dp, dn, fn in os.walk(root):
        if "__pycache__" in dp:
            continue
        for f in fn:
            if f.endswith(".py"):
                p = os.path.join(dp, f)
                with open(p, "rb") as fh:
                    out[os.path.relpath(p, root)] = hashlib.sha256(fh.read()).hexdigest()[:16]
    return out


_CHANGED = None


def changed_files():
    """files of /repo/nucs that differ from the tree the machinery was last validated on (baseline_tree.json; empty when that file
    is missing).  A changed file only DEEPENS the search of the checks it concerns (more cases, the complete small scope of the
    algorithm it implements): a harmless rewrite costs time, never an alarm."""
    global _CHANGED
    if _CHANGED is None:
        try:
            base = json.load(open(os.path.join(VERIF, "baseline_tree.json")))["files"]
            cur = file_hashes()
            _CHANGED = sorted(f for f in set(base) | set(cur) if base.get(f) != cur.get(f))
        except Exception:  # noqa: BLE001
            _CHANGED = []
    return _CHANGED


def boost(kind):
    """multiplier of a quick-tier budget: 1 on the validated tree; VERIF_BOOST (default 4) when a file the check concerns changed.
    kind: 'engine' (solvers, heuristics, problem, registries), 'examples', 'mp', or 'alg:<name>'"""
    ch = changed_files()
    if not ch:
        return 1
    k = int(os.environ.get("VERIF_BOOST", "4") or 4)
    if kind.startswith("alg:"):
        name = kind[4:]
        hit = any(f == f"propagators/{name}_propagator.py" for f in ch) or "propagators/propagators.py" in ch or \
            (name == "gcc" and "propagators/alldifferent_propagator.py" in ch) or "constants.py" in ch or "numpy_helper.py" in ch
        return k if hit else 1
    if kind == "examples":
        return k if any(f.startswith("examples/") or f.startswith("problems/") for f in ch) else 1
    if kind == "mp":
        return k if any("multiprocessing" in f or "backtrack_solver" in f or f.startswith("problems/") for f in ch) else 1
    # engine: anything that is not an example
    return k if any(not f.startswith("examples/") for f in ch) else 1


def setup_env(jit):
    """must be called before nucs / numba are imported"""
    th = tree_hash()
    os.environ["NUMBA_CACHE_DIR"] = os.path.join(VERIF, ".cache", "numba-" + th)
    if jit:
        os.environ.pop("NUMBA_DISABLE_JIT", None)
    else:
        os.environ["NUMBA_DISABLE_JIT"] = "1"
    if REPO not in sys.path:
        sys.path.insert(0, REPO)
    import logging

    logging.disable(logging.CRITICAL)
    return th


# ----------------------------------------------------------------------------- model driver


class Hang(Exception):
    """an in-process call of the real (interpreted) code did not return within its watchdog"""


class guard:
    """SIGALRM watchdog around in-process calls of the real code (interpreted mode: pure Python loops are
    interruptible; compiled code is not, there the supervising parent process is the watchdog)"""

    def __init__(self, seconds=20):
        self.seconds = seconds

    def _fire(self, signum, frame):
        raise Hang(f"no return within {self.seconds}s")

    def __enter__(self):
        import signal

        # only in interpreted mode: compiled code cannot be interrupted anyway, and a cold JIT compilation may
        # legitimately take longer than the limit (there the supervising parent process is the watchdog)
        self.active = bool(os.environ.get("NUMBA_DISABLE_JIT"))
        if self.active:
            self.old = signal.signal(signal.SIGALRM, self._fire)
            # guards nest (a walk under a 30 s guard calls single filtering calls under 5 s guards): remember what was left of the
            # enclosing alarm, so that leaving the inner guard re-arms it instead of cancelling it
            self.prev_left = signal.alarm(self.seconds)
            self.t0 = time.time()
        return self

    def __exit__(self, *a):
        import signal

        if self.active:
            signal.alarm(0)
            signal.signal(signal.SIGALRM, self.old)
            if self.prev_left:
                signal.alarm(max(1, int(self.prev_left - (time.time() - self.t0))))
        return False


class Model:
    """the compiled Lean driver behind a pipe; `ask` sends a batch of request lines"""

    def __init__(self):
        if not os.path.exists(DRIVER):
            raise RuntimeError("model driver not built: run `lake build` in " + LEAN_DIR)
        self.requests = 0

    def ask(self, lines):
        if not lines:
            return []
        data = ("\n".join(lines) + "\n").encode()
        r = subprocess.run([DRIVER], input=data, capture_output=True, timeout=3600)
        if r.returncode != 0:
            raise RuntimeError("model driver failed: " + r.stderr.decode()[-500:])
        out = r.stdout.decode().split("\n")
        if out and out[-1] == "":
            out.pop()
        if len(out) != len(lines):
            raise RuntimeError(f"model driver answered {len(out)} lines for {len(lines)} requests")
        self.requests += len(lines)
        return out


def enc_ints(l):
    l = list(l)
    return ",".join(str(int(x)) for x in l) if l else "-"


def enc_box(box):
    box = list(box)
    return ",".join(f"{int(a)}:{int(b)}" for a, b in box) if box else "-"


def enc_bools(l):
    l = list(l)
    return ",".join("1" if b else "0" for b in l) if l else "-"


def enc_rows(rows):
    rows = [list(r) for r in rows]
    rows = [r for r in rows]
    if not rows or all(len(r) == 0 for r in rows):
        return "-"
    return "/".join(enc_ints(r) for r in rows)


def dec_ints(s):
    return [] if s == "-" or s == "" else [int(x) for x in s.split(",")]


def dec_box(s):
    return [] if s == "-" or s == "" else [tuple(int(v) for v in x.split(":")) for x in s.split(",")]


def dec_bools(s):
    return [] if s == "-" or s == "" else [x == "1" for x in s.split(",")]


# ----------------------------------------------------------------------------- real code adapters


def alg_names():
    """index -> name, read from the live registry (never hard-wired)"""
    import nucs.propagators.propagators as P

    return [f.__name__.replace("compute_domains_", "") for f in P.COMPUTE_DOMAINS_FCTS]


def alg_index(name):
    import nucs.propagators.propagators as P

    names = alg_names()
    # the LAST registration wins for the ALG_* constant (ALG_MIN_GEQ is registered twice)
    idx = [i for i, n in enumerate(names) if n == name]
    return idx[-1]


def impl_prop(name, params, box):
    """one filtering call of the real code -> (status, box) ; IndexError -> ('oob', None)"""
    import numpy as np
    import nucs.propagators.propagators as P

    fct = getattr(P, "compute_domains_" + name)
    d = np.array(box, dtype=np.int32).reshape((-1, 2))
    p = np.array(params, dtype=np.int32)
    if PROP_HANGS.get(name, 0) >= 3:
        return "hang", None  # non-termination of this algorithm is established; further calls would only cost time
    try:
        with guard(5):
            st = int(fct(d, p))
    except IndexError:
        return "oob", None
    except Hang:
        PROP_HANGS[name] = PROP_HANGS.get(name, 0) + 1
        return "hang", None
    return st, [(int(a), int(b)) for a, b in d]


PROP_HANGS = {}


def complexity_key(alg_idx, n, params):
    """the float get_complexity_* value scaled to an integer that preserves its order"""
    import nucs.propagators.propagators as P

    return int(round(float(P.GET_COMPLEXITY_FCTS[alg_idx](n, params)) * 1000000))


class Prob:
    """a problem description independent of nucs objects"""

    def __init__(self, shr, idx=None, off=None, props=None):
        self.shr = [tuple(d) for d in shr]
        n = len(self.shr)
        self.idx = list(range(n)) if idx is None else list(idx)
        self.off = [0] * len(self.idx) if off is None else list(off)
        self.props = [] if props is None else [(list(v), a, list(p)) for v, a, p in props]  # (vars, alg NAME, params)

    def build(self):
        from nucs.problems.problem import Problem

        # the variable-adding API is exercised when the shape allows it: the last t variables together with the last t shared
        # domains are added through add_variable / add_variables (each call appends one shared domain AND one variable), the rest
        # through the constructor; the resulting lists must be exactly (shr, idx, off)
        nshr, nvars = len(self.shr), len(self.idx)
        t = 0
        if nshr >= 2 and nvars >= 2 and (nshr - 1) not in self.idx and all(i < nshr - 1 for i in self.idx):
            t = 1  # a trailing placeholder domain no variable uses: this is what add_variable(dom, dom_index=k, dom_offset=o) leaves behind
        for cand in ((2, 1) if t == 0 else ()):
            a, b = nshr - cand, nvars - cand
            if a >= 1 and b >= 1 and all(i < a for i in self.idx[:b]) and (nshr + nvars + len(self.props)) % 2 == 0:
                t = cand
                break
        if t == 0:
            p = Problem(list(self.shr), list(self.idx), list(self.off))
        else:
            a, b = nshr - t, nvars - t
            p = Problem(list(self.shr[:a]), list(self.idx[:b]), list(self.off[:b]))
            if t == 1:
                p.add_variable(tuple(self.shr[a]), self.idx[b], self.off[b])
            else:
                p.add_variables([tuple(d) for d in self.shr[a:]], list(self.idx[b:]), list(self.off[b:]))
            assert [tuple(d) for d in p.shr_domains_lst] == [tuple(d) for d in self.shr] and list(p.dom_indices_lst) == list(self.idx) \
                and list(p.dom_offsets_lst) == list(self.off), "harness: add_variable(s) did not produce the intended problem"
        # both posting APIs are exercised: one by one, in bulk, or a mixture (chosen deterministically from the problem)
        triples = [(list(v), alg_index(a), list(ps)) for v, a, ps in self.props]
        mode = (len(triples) + sum(len(v) for v, _, _ in triples) + len(self.shr)) % 3
        if mode == 0:
            for t in triples:
                p.add_propagator(t)
        elif mode == 1:
            p.add_propagators(triples)
        else:
            h = len(triples) // 2
            p.add_propagators(triples[:h])
            for t in triples[h:]:
                p.add_propagator(t)
        return p

    def enc(self):
        props = []
        for v, a, ps in self.props:
            props.append(f"{a}|{enc_ints(v)}|{enc_ints(ps)}|{complexity_key(alg_index(a), len(v), ps)}")
        vars_ = ",".join(f"{i}:{o}" for i, o in zip(self.idx, self.off)) if self.idx else "-"
        return f"{enc_box(self.shr)} {vars_} {';'.join(props) if props else '-'}"

    def to_json(self):
        return {"shr_domains": self.shr, "dom_indices": self.idx, "dom_offsets": self.off, "propagators": self.props}

    @staticmethod
    def from_json(j):
        return Prob(j["shr_domains"], j["dom_indices"], j["dom_offsets"], j["propagators"])


CONS_ALGS = ["bound_consistency_algorithm", "shaving_consistency_algorithm", "golomb_consistency_algorithm"]  # the third only once registered (C20)
VAR_HEURS = [
    "first_not_instantiated_var_heuristic",
    "smallest_domain_var_heuristic",
    "greatest_domain_var_heuristic",
    "max_regret_var_heuristic",
]
DOM_HEURS = [
    "min_value_dom_heuristic",
    "max_value_dom_heuristic",
    "split_low_dom_heuristic",
    "mid_value_dom_heuristic",
    "min_cost_dom_heuristic",
]


def registry_index(lst_name, fname):
    import nucs.heuristics.heuristics as H
    import nucs.solvers.consistency_algorithms as C

    lst = {"cons": C.CONSISTENCY_ALG_FCTS, "var": H.VAR_HEURISTIC_FCTS, "dom": H.DOM_HEURISTIC_FCTS}[lst_name]
    for i, f in enumerate(lst):
        if f.__name__ == fname:
            return i
    raise KeyError(fname)


class Cfg:
    def __init__(self, cons=0, varh=0, domh=0, var_costs=None, dom_costs=None, decision=None, height=128):
        self.cons, self.varh, self.domh = cons, varh, domh  # indices into the NAME lists above
        self.var_costs = var_costs if var_costs is not None else [[]]
        self.dom_costs = dom_costs if dom_costs is not None else [[]]
        self.decision = decision
        self.height = height

    def enc(self, prob):
        dec = self.decision if self.decision is not None else list(range(len(prob.shr)))
        return "|".join(
            [CONS_ALGS[self.cons], VAR_HEURS[self.varh], enc_rows(self.var_costs), DOM_HEURS[self.domh], enc_rows(self.dom_costs), enc_ints(dec), str(self.height)]
        )

    def solver(self, problem):
        from nucs.solvers.backtrack_solver import BacktrackSolver

        return BacktrackSolver(
            problem,
            consistency_alg_idx=registry_index("cons", CONS_ALGS[self.cons]),
            decision_domains=self.decision,
            var_heuristic_idx=registry_index("var", VAR_HEURS[self.varh]),
            var_heuristic_params=self.var_costs,
            dom_heuristic_idx=registry_index("dom", DOM_HEURS[self.domh]),
            dom_heuristic_params=self.dom_costs,
            stack_max_height=self.height,
            log_level="ERROR",
        )

    def to_json(self):
        return {
            "consistency": CONS_ALGS[self.cons],
            "var_heuristic": VAR_HEURS[self.varh],
            "dom_heuristic": DOM_HEURS[self.domh],
            "var_costs": self.var_costs,
            "dom_costs": self.dom_costs,
            "decision_domains": self.decision,
            "stack_max_height": self.height,
        }


STAT_LABELS = [
    "ALG_BC_NB", "ALG_BC_WITH_SHAVING_NB", "ALG_SHAVING_NB", "ALG_SHAVING_CHANGE_NB", "ALG_SHAVING_NO_CHANGE_NB",
    "PROPAGATOR_ENTAILMENT_NB", "PROPAGATOR_FILTER_NB", "PROPAGATOR_FILTER_NO_CHANGE_NB", "PROPAGATOR_INCONSISTENCY_NB",
    "SOLVER_BACKTRACK_NB", "SOLVER_CHOICE_NB", "SOLVER_CHOICE_DEPTH", "SOLVER_SOLUTION_NB",
]


def stats_list(solver):
    d = solver.get_statistics()
    return [int(d[k]) for k in STAT_LABELS]


IMPL_HANGS = [0]  # in-process calls of the real solver that ran into their watchdog; after three, further calls are not attempted


def impl_solve(prob, cfg, limit=None):
    """the real solve() generator; returns ('ok', sols, stats) or ('err', kind, None)"""
    if IMPL_HANGS[0] >= 3:
        return "hang", "not attempted: three earlier calls of the real solver did not return", None
    try:
        with guard(int(os.environ.get("NUCS_VERIF_CALL_TIMEOUT", "15"))):
            s = cfg.solver(prob.build())
            sols = []
            for sol in s.solve():
                sols.append([int(x) for x in sol])
                if limit is not None and len(sols) >= limit:
                    break
            return "ok", sols, stats_list(s)
    except IndexError as e:
        return "err", "stack-overflow" if "stack overflow" in str(e) else "oob", None
    except OverflowError:
        return "err", "oob", None
    except ValueError as e:
        return "err", "refused", None
    except Hang as e:
        IMPL_HANGS[0] += 1
        return "hang", str(e), None


def impl_optimize(prob, cfg, v, minimize):
    if IMPL_HANGS[0] >= 3:
        return "hang", "not attempted: three earlier calls of the real solver did not return", None
    try:
        with guard(int(os.environ.get("NUCS_VERIF_CALL_TIMEOUT", "15"))):
            s = cfg.solver(prob.build())
            best = s.minimize(v) if minimize else s.maximize(v)
            return "ok", None if best is None else [int(x) for x in best], stats_list(s)
    except IndexError as e:
        return "err", "stack-overflow" if "stack overflow" in str(e) else "oob", None
    except OverflowError:
        return "err", "oob", None
    except Hang as e:
        IMPL_HANGS[0] += 1
        return "hang", str(e), None


# ----------------------------------------------------------------------------- evidence / verdict


class Report:
    """collects what a check covered and writes evidence/<id>.json"""

    def __init__(self, prop_id, tier, seed):
        self.prop_id, self.tier, self.seed = prop_id, tier, seed
        self.t0 = time.time()
        self.cov = {
            "evaluations": 0,
            "distinct_nontrivial": 0,
            "rule": "",
            "samples": [],
            "traces_validated_against_impl": 0,
            "obligations": 0,
            "discharged": 0,
            "checker_cmd": "",
            "trusted_base": [],
            "distribution": {},
        }
        self.assumptions = []
        self.violations = []  # (kind, replay dict)
        self.known = []
        self._nontrivial = set()

    def count(self, key, sub=None, n=1):
        d = self.cov["distribution"].setdefault(key, {} if sub is not None else 0)
        if sub is None:
            self.cov["distribution"][key] = d + n
        else:
            d[str(sub)] = d.get(str(sub), 0) + n

    def nontrivial(self, canon):
        self._nontrivial.add(canon)

    def sample(self, s, cap=6):
        if len(self.cov["samples"]) < cap:
            self.cov["samples"].append(s)

    def write(self):
        self.cov["distinct_nontrivial"] = len(self._nontrivial)
        ev = {
            "property_id": self.prop_id,
            "tier": self.tier,
            "seed": self.seed,
            "level": "proof",
            "coverage": self.cov,
            "assumptions": self.assumptions,
            "wall_s": round(time.time() - self.t0, 2),
            "violations": len(self.violations),
        }
        os.makedirs(os.path.join(OUT, "evidence"), exist_ok=True)
        with open(os.path.join(OUT, "evidence", self.prop_id + ".json"), "w") as f:
            json.dump(ev, f, indent=1, default=str)
        return ev
