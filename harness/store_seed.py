#!/usr/bin/env python3
"""usage: store_seed.py <worktree> <seed-id> <property> <change> :: <needs> :: <caught_by json> [:: round]
copies patch.diff, demo.py (and notes.txt) of a sub-agent's scratch worktree to /verif/seeded/<seed-id>/, confirms the change
independently with harness/seed_confirm.sh and writes meta.json"""
import json, os, shutil, subprocess, sys

wt, sid, prop = sys.argv[1:4]
rest = " ".join(sys.argv[4:]).split("::")
change, needs, caught = rest[0].strip(), rest[1].strip(), json.loads(rest[2])
rnd = rest[3].strip() if len(rest) > 3 else "9"
dst = os.path.join("/verif/seeded", sid)
os.makedirs(dst, exist_ok=True)
for f in ("patch.diff", "demo.py", "notes.txt"):
    if os.path.exists(os.path.join(wt, f)):
        shutil.copy(os.path.join(wt, f), dst)
out = subprocess.run(["/verif/harness/seed_confirm.sh", sid.split("-")[0], dst], capture_output=True, text=True).stdout
print(out)
tests = [l for l in out.splitlines() if l.startswith("tests with change")]
demo = [l for l in out.splitlines() if l.startswith("demo exit")]
meta = {"id": sid, "breaks_property": prop, "change": change, "needs_to_manifest": needs,
        "author": f"independent sub-agent given only the property text, an area to aim at and a scratch worktree (round {rnd})",
        "confirmed": {"how": "harness/seed_confirm.sh in a fresh scratch worktree",
                      "tests_with_change": tests[0].split(":", 1)[1].strip() if tests else "?", "demo": demo[0] if demo else "?"},
        "checks_run": "harness/seedtest_wt.sh <worktree with the change> <props> (quick tier, NUCS_REPO pointing at the worktree)",
        "caught_by": caught}
json.dump(meta, open(os.path.join(dst, "meta.json"), "w"), indent=1)
