import itertools, random, sys
from ad import *

def cw(orig, P, a, b):
    return sum(1 for p in P if a <= orig[p][0] and orig[p][1] <= b)

def covered(orig, P, v, lo, hi):
    # exists Hall interval [a,b] of P containing v (a,b range over lo..hi)
    for a in range(lo, v+1):
        for b in range(v, hi+1):
            if cw(orig, P, a, b) >= b-a+1: return True
    return False

def checkL(kind, L, ctx):
    orig = ctx['orig']; P = L['P']; bounds=L['bounds']; t=L['t']; d=L['d']; h=L['h']; ranks=L['ranks']
    nb=L['nb']; N=nb+1
    lo = bounds[0]; hi = bounds[N]
    for p in range(len(orig)):
        assert bounds[ranks[p][0]] == orig[p][0] and bounds[ranks[p][1]] == orig[p][1]+1
    if kind == 'fail':
        v=L['v']; j=L['j']; y=L['y']
        PP = P+[v]
        assert bounds[j] <= bounds[y]-1
        assert cw(orig, PP, bounds[j], bounds[y]-1) > bounds[y]-bounds[j], ("fail", orig)
        return
    if kind == 'raise':
        v=L['v']; x=L['x']; w=L['w']
        assert w < L['y']
        for val in range(bounds[x], bounds[w]):
            assert covered(orig, P, val, lo, hi), ("raise", orig)
        return
    phi = lambda k: bounds[k] - sum(1 for p in P if ranks[p][0] < k)
    roots = [z for z in range(1, N+1) if t[z] < z]
    for z in roots:
        assert d[z] == phi(z) - phi(t[z]), ("I2a", orig, z)
        assert d[z] >= 1
        for k in range(t[z], z):
            assert phi(k) <= phi(t[z]), ("I2b", orig)
    yc = L['ycur']
    for k in range(0, yc+1):
        assert phi(k) <= phi(yc), ("I4", orig)
    for p in P: assert ranks[p][1] <= yc
    # HS'
    for k in range(1, N+1):
        if h[k] > k:
            for val in range(bounds[k], bounds[k+1]):
                assert covered(orig, P, val, lo, hi), ("HS", orig, k)
    # HC
    for ja in range(1, N+1):
        for yb in range(ja+1, N+1):
            if cw(orig, P, bounds[ja], bounds[yb]-1) == bounds[yb]-bounds[ja]:
                for k in range(ja, yb):
                    assert h[k] > k, ("HC", orig, ja, yb, k, h)

def checkU(kind, L, ctx):
    orig = ctx['orig']; P = L['P']; bounds=L['bounds']; t=L['t']; d=L['d']; h=L['h']; ranks=L['ranks']
    nb=L['nb']; N=nb+1
    lo = bounds[0]; hi = bounds[N]
    if kind == 'fail':
        assert False, ("upper fail", orig)
    if kind == 'lower':
        v=L['v']; x=L['x']; w=L['w']
        assert w > L['y']
        for val in range(bounds[w], bounds[x]):
            assert covered(orig, P, val, lo, hi), ("lower", orig)
        return
    psi = lambda k: -bounds[k] - sum(1 for p in P if ranks[p][1] > k)
    roots = [z for z in range(0, N) if t[z] > z]
    for z in roots:
        assert d[z] == psi(z) - psi(t[z]), ("U2a", orig, z)
        assert d[z] >= 1
        for k in range(z+1, t[z]+1):
            assert psi(k) <= psi(t[z]), ("U2b", orig)
    yc = L['y']
    for k in range(yc, N+1):
        assert psi(k) <= psi(yc), ("U4", orig)
    for p in P: assert ranks[p][0] >= yc
    for k in range(1, N):
        if h[k] < k:
            for val in range(bounds[k-1], bounds[k]):
                assert covered(orig, P, val, lo, hi), ("UHS", orig, k)
    for ya in range(0, N):
        for jb in range(ya+1, N):
            if cw(orig, P, bounds[ya], bounds[jb]-1) == bounds[jb]-bounds[ya]:
                for k in range(ya+1, jb+1):
                    assert h[k] < k, ("UHC", orig, ya, jb, k, h)

if __name__=='__main__':
    cnt=0
    for n in range(1,5):
        for B in boxes(n,6):
            alldiff(B, checkL, checkU); cnt+=1
    print("small ok", cnt)
    random.seed(1)
    for it in range(3000):
        n = random.randint(1,8); V = random.randint(1,10)
        B=[]
        for _ in range(n):
            a=random.randint(0,V); b=random.randint(a,V); B.append((a,b))
        alldiff(B, checkL, checkU)
    print("random ok")
