import itertools, random, sys

def path_set(t, start, end, value):
    while (p := start) != end:
        start = t[p]; t[p] = value
def path_min(t, i):
    while t[i] < i: i = t[i]
    return i
def path_max(t, i):
    while t[i] > i: i = t[i]
    return i

def argsort(keys):
    return sorted(range(len(keys)), key=lambda i: keys[i])

def update_bounds(bounds, n, dom, ranks, mins, maxs):
    min_value = dom[mins[0]][0]; max_value = dom[maxs[0]][1] + 1
    last = min_value - 2; bounds[0] = last
    i = j = nb = 0
    while True:
        if i < n and min_value <= max_value:
            if min_value != last:
                nb += 1; bounds[nb] = last = min_value
            ranks[mins[i]][0] = nb; i += 1
            if i < n: min_value = dom[mins[i]][0]
        else:
            if max_value != last:
                nb += 1; bounds[nb] = last = max_value
            ranks[maxs[j]][1] = nb; j += 1
            if j == n: break
            max_value = dom[maxs[j]][1] + 1
    bounds[nb+1] = bounds[nb] + 2
    return nb

class Fail(Exception): pass

def count_within(dom, P, a, b):
    return sum(1 for p in P if a <= dom[p][0] and dom[p][1] <= b)

def filter_lower(n, nb, t, d, h, bounds, dom, ranks, maxs, check=None):
    for i in range(1, nb+2):
        t[i] = h[i] = i-1; d[i] = bounds[i] - bounds[i-1]
    P = []
    ycur = 0
    for i, v in enumerate(maxs):
        x = ranks[v][0]; y = ranks[v][1]
        z = path_max(t, x+1); j = t[z]; d[z] -= 1
        if d[z] == 0:
            t[z] = z+1; z = path_max(t, t[z]); t[z] = j
        if d[z] + bounds[y] < bounds[z]:
            if check: check('fail', locals())
            return False
        path_set(t, x+1, z, z)
        if h[x] > x:
            w = path_max(h, h[x]); dom[v][0] = bounds[w]; path_set(h, x, w, w)
            if check: check('raise', locals())
        if d[z] + bounds[y] == bounds[z]:
            path_set(h, h[y], j-1, y); h[y] = j-1
        P.append(v); ycur = y
        if check: check('inv', locals())
    return True

def filter_upper(n, nb, t, d, h, bounds, dom, ranks, mins, check=None):
    for i in range(nb+1):
        t[i] = h[i] = i+1; d[i] = bounds[i+1] - bounds[i]
    P = []
    for i in range(n-1, -1, -1):
        v = mins[i]
        x = ranks[v][1]; y = ranks[v][0]
        z = path_min(t, x-1); j = t[z]; d[z] -= 1
        if d[z] == 0:
            t[z] = z-1; z = path_min(t, t[z]); t[z] = j
        if d[z] + bounds[z] < bounds[y]:
            if check: check('fail', locals())
            return False
        path_set(t, x-1, z, z)
        if h[x] < x:
            w = path_min(h, h[x]); dom[v][1] = bounds[w]-1; path_set(h, x, w, w)
            if check: check('lower', locals())
        if d[z] + bounds[z] == bounds[y]:
            path_set(h, h[y], j+1, y); h[y] = j+1
        P.append(v)
        if check: check('inv', locals())
    return True

def alldiff(dom0, checkL=None, checkU=None):
    dom = [list(x) for x in dom0]
    n = len(dom)
    ranks = [[0,0] for _ in range(n)]
    bn = 2*n+2
    bounds=[0]*bn; t=[0]*bn; d=[0]*bn; h=[0]*bn
    mins = argsort([x[0] for x in dom]); maxs = argsort([x[1] for x in dom])
    nb = update_bounds(bounds, n, dom, ranks, mins, maxs)
    ctx = dict(orig=[tuple(x) for x in dom0])
    okL = filter_lower(n, nb, t, d, h, bounds, dom, ranks, maxs, (lambda k,l: checkL(k,l,ctx)) if checkL else None)
    if not okL: return False, dom
    okU = filter_upper(n, nb, t, d, h, bounds, dom, ranks, mins, (lambda k,l: checkU(k,l,ctx)) if checkU else None)
    if not okU: return False, dom
    return True, dom

def brute(dom0):
    n=len(dom0)
    sols=[s for s in itertools.product(*[range(a,b+1) for a,b in dom0]) if len(set(s))==n]
    if not sols: return None
    return [(min(s[i] for s in sols), max(s[i] for s in sols)) for i in range(n)]

def boxes(n, V):
    ds=[(a,b) for a in range(V) for b in range(a,V)]
    return itertools.product(ds, repeat=n)

if __name__=='__main__':
    cnt=0
    for n in range(1,5):
        for B in boxes(n,6):
            ok, D = alldiff(B)
            br = brute(B)
            cnt+=1
            if (br is None) != (not ok):
                print("FAILDIFF", B, ok, D, br); sys.exit(1)
            if ok:
                if [tuple(x) for x in D] != br:
                    print("HULLDIFF", B, D, br); sys.exit(1)
                ok2, D2 = alldiff([tuple(x) for x in D])
                if not ok2 or D2 != D:
                    print("NOT IDEMPOTENT", B, D, D2); sys.exit(1)
    print("all fine", cnt)
