"""
Bounds-AND-SIGN-checked arrays for the interpreted engine (C16).

NumPy raises IndexError for an index that is too large but silently WRAPS a negative one; the compiled
code checks nothing at all.  `install()` rebinds the name `np` inside every nucs module to a shim whose
array constructors return `Chk` arrays: an integer index that is negative raises `NegIndex` (an
IndexError) unless it is written as a literal in the source (`parameters[-1]`, `psum[0, -1]`): the
(file, line) positions of literal negative subscripts are collected from the AST of the CURRENT
source on every run and only those are exempt.
"""
import ast
import importlib
import os
import pkgutil
import sys

import numpy as np


class NegIndex(IndexError):
    pass


LITERAL_SITES = set()


def _is_int(v):
    return isinstance(v, (int, np.integer)) and not isinstance(v, (bool, np.bool_))


def _neg_literal(node):
    return isinstance(node, ast.UnaryOp) and isinstance(node.op, ast.USub) and isinstance(node.operand, ast.Constant)


def collect_literal_sites(root):
    sites = set()
    for dp, dn, fn in os.walk(root):
        for f in fn:
            if not f.endswith(".py"):
                continue
            path = os.path.join(dp, f)
            try:
                tree = ast.parse(open(path).read())
            except SyntaxError:
                continue
            for node in ast.walk(tree):
                if isinstance(node, ast.Subscript):
                    sl = node.slice
                    elts = sl.elts if isinstance(sl, ast.Tuple) else [sl]
                    if any(_neg_literal(e) for e in elts):
                        for ln in range(node.lineno, (node.end_lineno or node.lineno) + 1):
                            sites.add((os.path.realpath(path), ln))
    return sites


class Chk(np.ndarray):
    def _check(self, idx):
        bad = False
        if isinstance(idx, tuple):
            bad = any(_is_int(i) and i < 0 for i in idx)
        elif _is_int(idx):
            bad = idx < 0
        if bad:
            fr = sys._getframe(2)
            if (os.path.realpath(fr.f_code.co_filename), fr.f_lineno) not in LITERAL_SITES:
                raise NegIndex(f"negative index {idx!r} at {fr.f_code.co_filename}:{fr.f_lineno}")

    def __getitem__(self, idx):
        self._check(idx)
        return super().__getitem__(idx)

    def __setitem__(self, idx, value):
        self._check(idx)
        super().__setitem__(idx, value)


def _wrap(a):
    return a.view(Chk) if isinstance(a, np.ndarray) and not isinstance(a, Chk) and a.ndim >= 1 else a


class NpShim:
    """stands for the module `np` inside the nucs modules"""

    def __getattr__(self, name):
        return getattr(np, name)

    def zeros(self, *a, **k):
        return _wrap(np.zeros(*a, **k))

    def empty(self, *a, **k):
        return _wrap(np.empty(*a, **k))

    def ones(self, *a, **k):
        return _wrap(np.ones(*a, **k))

    def full(self, *a, **k):
        return _wrap(np.full(*a, **k))

    def array(self, *a, **k):
        return _wrap(np.array(*a, **k))

    def copy(self, *a, **k):
        return _wrap(np.copy(*a, **k))


def install(repo):
    """rebind `np` in every nucs module; returns the number of modules patched"""
    global LITERAL_SITES
    LITERAL_SITES = collect_literal_sites(os.path.join(repo, "nucs"))
    import nucs

    shim = NpShim()
    n = 0
    for m in pkgutil.walk_packages(nucs.__path__, "nucs."):
        if ".examples." in m.name and m.name.endswith("__main__"):
            continue
        try:
            mod = importlib.import_module(m.name)
        except Exception:  # noqa: BLE001
            continue
        if getattr(mod, "np", None) is np:
            mod.np = shim
            n += 1
    return n


def wrap(a):
    return _wrap(a)
