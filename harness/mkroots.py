"""regenerate lean/lakefile.toml: one root per Properties file"""
import os

LEAN = os.path.join(os.path.dirname(os.path.dirname(os.path.abspath(__file__))), "lean")
props = sorted(f[:-5] for f in os.listdir(os.path.join(LEAN, "NucsProofs", "Properties")) if f.endswith(".lean"))
roots = ", ".join(f'"NucsProofs.Properties.{p}"' for p in props)
open(os.path.join(LEAN, "lakefile.toml"), "w").write(f'''name = "nucsverif"
version = "0.1.0"
defaultTargets = ["NucsModel", "NucsProofs", "driver"]

[[lean_lib]]
name = "NucsModel"

# one root per property file (regenerate with harness/mkroots.py when a Properties file is added);
# there is deliberately no module importing all proof files at once
[[lean_lib]]
name = "NucsProofs"
roots = [{roots}]

[[lean_exe]]
name = "driver"
root = "Main"
''')
print(props)
